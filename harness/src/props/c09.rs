//! C09 — space-filling-curve parts are contiguous runs of the curve.
//!
//! ops (floats are hex bit patterns; everything after `=>` is hook-derived data the model
//! takes as a parameter; a stale `=> …` suffix in corpus/replay lines is ignored and recomputed):
//!
//! `bs <key> <m> <e_0> … <e_{m-1}>`
//!      std `binary_search` on any (also unsorted) `u64` slice.            out: `ok i` | `err i`
//! `wq <pool> <parts> <n> <idx…> <w…> [=> <m> <pos…>]`
//!      `weighted_quantiles` (hook) on given curve indices, then the id lookup of
//!      `partition_indexed` (std `binary_search`).                         out: `ok <src> | <pos…> | <ids…>`
//! `hil <dim> <pool> <order> <parts> <n> <coords…> <w…> [=> <idx…> <m> <pos…>]`
//!      `HilbertCurve { part_count, order }.partition`; indices and split positions from the hooks.
//!                                                                          out: `ok <src> | <pos…> | <ids…>`
//!      `<src>` = `m` when every weight is a non-negative integer (sum < 2^53): the model then
//!      runs its own refinement and the positions are compared too; `h`: positions are taken
//!      from the hook (float sums depend on the summation order).
//! `zc <dim> <pool> <order> <parts> <n> <coords…> [=> <code…>]`
//!      `ZCurve { part_count, order }.partition`; per-point region codes and the reordered
//!      permutation from the hooks.      out: `ok | <codes along the permutation> | <sorted code:id pairs>`
//!      (both observables are invariant under the unstable sort's order of equal codes).
//!      Suffix `=> <code…> | <frame coordinates…>` (up to MAPPED_CAP values): the points in the frame of the oriented
//!      box (hook `geometry::obb_frame`); the model then computes the cells ITSELF (box, centres, halving: `cellDigits`)
//!      and the hook's codes are only what the implementation line is printed with; the harness does the same in
//!      `ref_cells` and applies the contiguity oracle to those cells (`zcurve-cell-differs-from-reference`).
//! `wqs <pool> <parts> <n> <scale> <idx…> <w…>`, `hils <dim> <pool> <order> <parts> <n> <scale> <coords…> <w…>`
//!      `wq` / `hil` with every weight multiplied by `<scale>` (f64 bits); for a power of two the harness also
//!      runs the unscaled weights and requires identical positions and ids (scale invariance).
//! `hilg <dim> <pool> <order> <parts> <n> <family> <layout> <wmode> <seed> <reuse> [=> <idx…> <w…> <m> <pos…>]`
//! `zcg  <dim> <pool> <order> <parts> <n> <family> <layout> <seed> <reuse> [=> <code…>]`
//!      the same two algorithms on points (and integer weights) GENERATED from the descriptor (see
//!      `gen_family`, `apply_layout`, `gen_int_weights`): the large-n / corner / reuse stream. Same outs.
//! `cx <kind> <pool> <count> <seed>`  kind in global | task | many | types: `<count>` generated hilg/zcg cases called on the
//!      global rayon pool / from inside a rayon task / all at once from `par_iter` / with every weight container type,
//!      each result compared with the sequential call in `pool.install` (`context-dependent@…`, `input-type-dependent@…`).
//! `rs <z|h> <dim> <pool> <order> <parts> <seed> <m> <n_1> … <n_m>`  REUSE SEQUENCE: ONE algorithm value (`ZCurve` / `HilbertCurve`,
//!      `partition` takes `&mut self`) is used on `m` generated point sets of DIFFERENT sizes `n_1 … n_m` (0, 1, fewer than
//!      `parts`, more) in this order; every call is judged by the oracle (cells / indices from the hooks) and its ids must equal
//!      those of a FRESH value on the same input (`value-state-dependent@…`). Model line: `skip …`; the calls are also run as
//!      ordinary `zcg` / `hilg` ops (full oracle, model).
//! `seq | <op> | <op> …`  the listed ops run first-thing, in this order, in a fresh CHILD PROCESS (`verif-harness replay`);
//!      their canonical outputs must equal those of this (warm) process (`process-state-dependent@…`).
//!      Both are implementation-vs-implementation checks (model line: `skip …`); the calls are also run as ordinary ops.
//! other outs: `ok-empty`, `err invalid-order`, `panic file:line: msg`, `hang`.

use crate::common::*;
use coupe::Partition as _;
use coupe::{Point2D, Point3D};

const WATCHDOG_S: u64 = 60;
const UNWRITTEN: usize = usize::MAX;

// ------------------------------------------------------------------ helpers

fn hex(x: f64) -> String {
    format!("{:x}", x.to_bits())
}

fn list<T: std::fmt::Display>(xs: &[T]) -> String {
    if xs.is_empty() {
        "-".into()
    } else {
        join(xs)
    }
}

fn pts2(c: &[f64]) -> Vec<Point2D> {
    c.chunks(2).map(|p| Point2D::new(p[0], p[1])).collect()
}

fn pts3(c: &[f64]) -> Vec<Point3D> {
    c.chunks(3).map(|p| Point3D::new(p[0], p[1], p[2])).collect()
}

/// Weights for which every summation order gives the same `f64` sums: non-negative finite values
/// that are all multiples of one power of two `2^q` with a total below `2^53 * 2^q` (every partial
/// sum is then exactly representable). Integer weights with a sum below 2^53, power-of-two
/// multiples of them and subnormal weights are instances; `-0.0` counts as zero. Same rule in the
/// Lean driver (`exactWeights`).
fn exact_weights(ws: &[f64]) -> bool {
    let mut ds: Vec<(u64, u32)> = Vec::with_capacity(ws.len());
    for &w in ws {
        let b = w.to_bits();
        if b == 0x8000_0000_0000_0000 {
            continue;
        }
        if b >> 63 != 0 {
            return false;
        }
        let ef = (b >> 52) as u32;
        let mant = b & ((1u64 << 52) - 1);
        if ef == 0x7ff {
            return false;
        }
        let (m, e) = if ef == 0 { (mant, 0) } else { (mant | (1u64 << 52), ef - 1) };
        if m == 0 {
            continue;
        }
        let tz = m.trailing_zeros();
        ds.push((m >> tz, e + tz));
    }
    let q = ds.iter().map(|d| d.1).min().unwrap_or(0);
    let mut sum: u128 = 0;
    for (m, e) in ds {
        if e - q > 53 {
            return false;
        }
        sum += (m as u128) << (e - q);
    }
    sum < (1u128 << 53)
}

/// `-0.0` replaced by `+0.0`; `None` when there is no negative zero.
fn without_negzero(xs: &[f64]) -> Option<Vec<f64>> {
    if xs.iter().any(|x| x.to_bits() == 0x8000_0000_0000_0000) {
        Some(xs.iter().map(|x| if *x == 0.0 { 0.0 } else { *x }).collect())
    } else {
        None
    }
}

/// The model re-runs the quantile refinement when it is reproducible (`exact`) and cheap enough
/// (same rule in the Lean driver: `ownRefinement`); otherwise it takes the hook's positions.
fn own_refinement(exact: bool, _n: usize, _parts: usize) -> bool {
    // measured: the compiled model refines 70 001 points into 70 001 parts in 0.3 s, so no size gate
    exact
}

/// `2^e` with `|e| <= 200`: scaling integer weights by it is exact and keeps every sum exact
/// (same rule in the Lean driver: `pow2Scale`).
fn pow2_scale(scale: f64) -> bool {
    let b = scale.to_bits();
    b & ((1u64 << 52) - 1) == 0 && (823..=1223).contains(&(b >> 52))
}

struct Toks<'a>(std::str::SplitWhitespace<'a>);

impl<'a> Toks<'a> {
    fn usize(&mut self) -> Option<usize> {
        self.0.next()?.parse().ok()
    }
    fn u64(&mut self) -> Option<u64> {
        self.0.next()?.parse().ok()
    }
    fn f64(&mut self) -> Option<f64> {
        Some(f64::from_bits(u64::from_str_radix(self.0.next()?, 16).ok()?))
    }
    fn many<T>(&mut self, n: usize, mut f: impl FnMut(&mut Self) -> Option<T>) -> Option<Vec<T>> {
        let mut v = Vec::with_capacity(n.min(1 << 16));
        for _ in 0..n {
            v.push(f(self)?);
        }
        Some(v)
    }
    /// end of the input part: nothing left or the `=>` marker
    fn at_end(&mut self) -> bool {
        matches!(self.0.next(), None | Some("=>"))
    }
}

fn finish(ctx: &mut Ctx, op: String, out: String, nontrivial: bool, verdict: Option<(String, String)>) {
    ctx.count(&format!("out:{}:{}", op.split(' ').next().unwrap_or(""), out.split(' ').next().unwrap_or("")));
    let idx = ctx.record(op, out, nontrivial);
    if let Some((sig, what)) = verdict {
        ctx.fail(idx, &sig, what);
    }
}

fn caught_out<T>(c: &Caught<T>) -> Option<(String, Option<(String, String)>)> {
    match c {
        Caught::Ok(_) => None,
        Caught::Panic(m) => Some((format!("panic {}", m), Some(("panic".to_string(), format!("{} [{}]", m, panic_sig(m)))))),
        Caught::Hang => Some(("hang".into(), Some(("hang".to_string(), format!("no answer within {} s", WATCHDOG_S))))),
    }
}

// ------------------------------------------------------------------ bs

fn run_bs(ctx: &mut Ctx, op: &str, t: &mut Toks) -> Option<()> {
    let key = t.u64()?;
    let m = t.usize()?;
    let s = t.many(m, |t| t.u64())?;
    if !t.at_end() {
        return None;
    }
    let out = match s.binary_search(&key) {
        Ok(i) => format!("ok {}", i),
        Err(i) => format!("err {}", i),
    };
    let sorted = s.windows(2).all(|w| w[0] <= w[1]);
    ctx.count(if sorted { "bs:sorted" } else { "bs:unsorted" });
    // oracle: the documented contract on sorted slices; the bound always
    let r = s.binary_search(&key);
    let mut v = None;
    let i = match r {
        Ok(i) | Err(i) => i,
    };
    if i > s.len() {
        v = Some(("bsearch-out-of-range".to_string(), format!("{} > len {}", i, s.len())));
    } else if sorted {
        let good = match r {
            Ok(i) => s[i] == key,
            Err(i) => s[..i].iter().all(|x| *x < key) && s[i..].iter().all(|x| *x > key),
        };
        if !good {
            v = Some(("bsearch-contract".to_string(), format!("{:?} on a sorted slice", r)));
        }
    }
    finish(ctx, op.to_string(), out, m >= 2, v);
    Some(())
}

// ------------------------------------------------------------------ Hilbert

/// The property on the implementation's output, stated naively: smaller curve index ⇒ part id
/// not larger (and equal indices share a part), every id below `parts`.
fn hilbert_oracle(idx: &[u64], ids: &[usize], parts: usize) -> Option<(String, String)> {
    if let Some(p) = ids.iter().position(|&i| i >= parts) {
        return Some(("hilbert-id-out-of-range".into(), format!("point {} has id {} with {} parts", p, ids[p], parts)));
    }
    let mut ord: Vec<usize> = (0..idx.len()).collect();
    ord.sort_by_key(|&p| (idx[p], ids[p]));
    for w in ord.windows(2) {
        let (a, b) = (w[0], w[1]);
        if idx[a] < idx[b] && ids[a] > ids[b] {
            return Some((
                "hilbert-not-monotone".into(),
                format!("index {} < {} but part {} > {} (points {}, {})", idx[a], idx[b], ids[a], ids[b], a, b),
            ));
        }
        if idx[a] == idx[b] && ids[a] != ids[b] {
            return Some((
                "hilbert-same-index-split".into(),
                format!("index {} in parts {} and {} (points {}, {})", idx[a], ids[a], ids[b], a, b),
            ));
        }
    }
    None
}

fn hil_nontrivial(idx: &[u64], parts: usize) -> bool {
    let mut d = idx.to_vec();
    d.sort_unstable();
    d.dedup();
    parts >= 2 && d.len() >= 2
}

fn run_wq(ctx: &mut Ctx, t: &mut Toks, scaled: bool) -> Option<()> {
    let pool = t.usize()?;
    let parts = t.usize()?;
    let n = t.usize()?;
    let scale = if scaled { Some(t.f64()?) } else { None };
    let idx = t.many(n, |t| t.u64())?;
    let ws_base = t.many(n, |t| t.f64())?;
    if !t.at_end() || pool == 0 || pool > 64 {
        return None;
    }
    let base = format!(
        "{} {} {} {} {} {} {}",
        if scaled { "wqs" } else { "wq" },
        pool,
        parts,
        n,
        scale.map(hex).unwrap_or_default(),
        join(&idx),
        join(&ws_base.iter().map(|w| hex(*w)).collect::<Vec<_>>())
    )
    .split_whitespace()
    .collect::<Vec<_>>()
    .join(" ");
    // the weights the code sees: one multiplication each (exact for a power of two)
    let ws: Vec<f64> = match scale {
        Some(sc) => ws_base.iter().map(|w| w * sc).collect(),
        None => ws_base.clone(),
    };
    let (idx2, ws2) = (idx.clone(), ws.clone());
    let r = catch_timeout(WATCHDOG_S, move || {
        with_pool(pool, || coupe::verif::hilbert::weighted_quantiles(&idx2, &ws2, parts))
    });
    if let Some((out, v)) = caught_out(&r) {
        // the only panics inside the contract would be findings; parts = 0 / n = 0 are malformed
        let v = if parts == 0 || n == 0 { None } else { v };
        ctx.count("wq:malformed-or-failed");
        finish(ctx, base, out, false, v);
        return Some(());
    }
    let Caught::Ok(pos) = r else { unreachable!() };
    // `partition_indexed`'s lookup
    let ids: Vec<usize> = idx
        .iter()
        .map(|i| match pos.binary_search(i) {
            Ok(p) | Err(p) => p,
        })
        .collect();
    let exact = exact_weights(&ws);
    let src = if own_refinement(exact, n, parts) { "m" } else { "h" };
    ctx.count(&format!("wq:src:{}", src));
    let mut v = hilbert_oracle(&idx, &ids, parts);
    if v.is_none() && !pos.windows(2).all(|w| w[0] <= w[1]) {
        v = Some(("quantiles-unsorted".into(), format!("positions {:?}", pos)));
    }
    if v.is_none() && pos.len() + 1 != parts {
        v = Some(("quantiles-count".into(), format!("{} positions for {} parts", pos.len(), parts)));
    }
    // signed zero: `-0.0` is a legal non-negative weight; the result must be that of `+0.0`
    if let (true, Some(wz)) = (v.is_none(), without_negzero(&ws)) {
        ctx.count("special:negzero-weight:wq");
        let idx2 = idx.clone();
        match catch_timeout(WATCHDOG_S, move || with_pool(pool, || coupe::verif::hilbert::weighted_quantiles(&idx2, &wz, parts))) {
            Caught::Ok(pos0) => {
                if pos0 != pos {
                    v = Some(("negzero-dependent@weighted_quantiles".into(), format!("positions {:?} but {:?} with +0.0", &pos[..pos.len().min(8)], &pos0[..pos0.len().min(8)])));
                }
            }
            Caught::Panic(m) => v = Some(("panic".into(), format!("+0.0 run: {} [{}]", m, panic_sig(&m)))),
            Caught::Hang => v = Some(("hang".into(), "+0.0 run: no answer".into())),
        }
    }
    // scale invariance: multiplying every weight by a power of two changes no rounding, so the
    // split positions must be IDENTICAL to those of the unscaled weights
    if let Some(sc) = scale {
        if v.is_none() && pow2_scale(sc) && ws_base.iter().all(|w| w.is_finite()) {
            ctx.count("scale:invariance-checked");
            let (idx2, wb) = (idx.clone(), ws_base.clone());
            match catch_timeout(WATCHDOG_S, move || with_pool(pool, || coupe::verif::hilbert::weighted_quantiles(&idx2, &wb, parts))) {
                Caught::Ok(pos0) => {
                    if pos0 != pos {
                        v = Some((
                            "hilbert-scale-variance".into(),
                            format!("scale {:e}: positions {:?} but {:?} unscaled", sc, &pos[..pos.len().min(8)], &pos0[..pos0.len().min(8)]),
                        ));
                    }
                }
                Caught::Panic(m) => v = Some(("panic".into(), format!("unscaled run: {} [{}]", m, panic_sig(&m)))),
                Caught::Hang => v = Some(("hang".into(), "unscaled run: no answer".into())),
            }
        }
    }
    let out = format!("ok {} | {} | {}", src, list(&pos), list(&ids));
    let op = format!("{} => {} {}", base, pos.len(), join(&pos)).trim_end().to_string();
    finish(ctx, op, out, hil_nontrivial(&idx, parts), v);
    Some(())
}

struct HilRan {
    res: Result<(), String>,
    ids: Vec<usize>,
    idx: Vec<u64>,
    pos: Vec<u64>,
    /// ids and positions of the same call with the UNSCALED weights (scale-invariance check)
    unscaled: Option<(Vec<usize>, Vec<u64>)>,
    /// ids of the same call with `+0.0` in place of every `-0.0` coordinate and weight
    poszero: Option<Vec<usize>>,
}

/// How the call under test is preceded (object / buffer reuse): 0 = fresh algorithm value and
/// fresh buffer; 1 = the same algorithm value and the same id buffer were first used on a
/// different input (the points in reverse order); 2 = the same value and buffer were first used
/// with half as many parts, then `part_count` is raised. The model knows no history: any
/// dependence on it is a correspondence break.
fn reuse_name(reuse: usize) -> &'static str {
    match reuse {
        0 => "fresh",
        1 => "same-value-other-input",
        _ => "same-buffer-more-parts",
    }
}

fn run_hil(ctx: &mut Ctx, t: &mut Toks, scaled: bool) -> Option<()> {
    let dim = t.usize()?;
    let pool = t.usize()?;
    let order = t.u64()?;
    let parts = t.usize()?;
    let n = t.usize()?;
    if !(dim == 2 || dim == 3) || pool == 0 || pool > 64 || order > u32::MAX as u64 {
        return None;
    }
    let scale = if scaled { Some(t.f64()?) } else { None };
    let coords = t.many(n * dim, |t| t.f64())?;
    let ws = t.many(n, |t| t.f64())?;
    if !t.at_end() {
        return None;
    }
    let base = format!(
        "{} {} {} {} {} {} {} {} {}",
        if scaled { "hils" } else { "hil" },
        dim,
        pool,
        order,
        parts,
        n,
        scale.map(hex).unwrap_or_default(),
        join(&coords.iter().map(|w| hex(*w)).collect::<Vec<_>>()),
        join(&ws.iter().map(|w| hex(*w)).collect::<Vec<_>>())
    )
    .split_whitespace()
    .collect::<Vec<_>>()
    .join(" ");
    hil_exec(ctx, base, dim, pool, order, parts, n, coords, ws, scale, 0, false);
    Some(())
}

#[allow(clippy::too_many_arguments)]
fn hil_exec(
    ctx: &mut Ctx,
    base: String,
    dim: usize,
    pool: usize,
    order: u64,
    parts: usize,
    n: usize,
    coords: Vec<f64>,
    ws_base: Vec<f64>,
    scale: Option<f64>,
    reuse: usize,
    generated: bool,
) {
    let max_order = if dim == 2 { 32 } else { 21 };
    // the weights the code sees: one multiplication each (exact for a power of two)
    let ws: Vec<f64> = match scale {
        Some(sc) => ws_base.iter().map(|w| w * sc).collect(),
        None => ws_base.clone(),
    };
    let check_inv = scale.map(pow2_scale).unwrap_or(false) && ws_base.iter().all(|w| w.is_finite());
    let negzero: Option<(Vec<f64>, Vec<f64>)> = match (without_negzero(&coords), without_negzero(&ws)) {
        (None, None) => None,
        (c, w) => Some((c.unwrap_or_else(|| coords.clone()), w.unwrap_or_else(|| ws.clone()))),
    };
    let has_negzero = negzero.is_some();
    let wb = ws_base.clone();
    let (coords2, ws2) = (coords.clone(), ws.clone());
    let r = catch_timeout(WATCHDOG_S, move || {
        with_pool(pool, || {
            let mut ids = vec![UNWRITTEN; n];
            let mut alg = coupe::HilbertCurve { part_count: parts, order: order as u32 };
            let (res, idx) = if dim == 2 {
                let p = pts2(&coords2);
                if reuse == 1 {
                    let q: Vec<Point2D> = p.iter().rev().copied().collect();
                    let _ = alg.partition(&mut ids, (&q[..], ws2.clone()));
                } else if reuse >= 2 {
                    alg.part_count = (parts / 2).max(1);
                    let _ = alg.partition(&mut ids, (&p[..], ws2.clone()));
                    alg.part_count = parts;
                }
                let r = alg.partition(&mut ids, (&p[..], ws2.clone())).map_err(|e| format!("{:?}", e));
                let idx = if r.is_ok() && n > 0 { coupe::verif::hilbert::indices_2d(&p, order as usize) } else { vec![] };
                (r, idx)
            } else {
                let p = pts3(&coords2);
                if reuse == 1 {
                    let q: Vec<Point3D> = p.iter().rev().copied().collect();
                    let _ = alg.partition(&mut ids, (&q[..], ws2.clone()));
                } else if reuse >= 2 {
                    alg.part_count = (parts / 2).max(1);
                    let _ = alg.partition(&mut ids, (&p[..], ws2.clone()));
                    alg.part_count = parts;
                }
                let r = alg.partition(&mut ids, (&p[..], ws2.clone())).map_err(|e| format!("{:?}", e));
                let idx = if r.is_ok() && n > 0 { coupe::verif::hilbert::indices_3d(&p, order as usize) } else { vec![] };
                (r, idx)
            };
            let pos = if res.is_ok() && n > 0 {
                coupe::verif::hilbert::weighted_quantiles(&idx, &ws2, parts)
            } else {
                vec![]
            };
            let unscaled = if check_inv && res.is_ok() && n > 0 {
                let mut ids0 = vec![UNWRITTEN; n];
                let mut alg0 = coupe::HilbertCurve { part_count: parts, order: order as u32 };
                if dim == 2 {
                    let _ = alg0.partition(&mut ids0, (&pts2(&coords2)[..], wb.clone()));
                } else {
                    let _ = alg0.partition(&mut ids0, (&pts3(&coords2)[..], wb.clone()));
                }
                Some((ids0, coupe::verif::hilbert::weighted_quantiles(&idx, &wb, parts)))
            } else {
                None
            };
            let poszero = match (&negzero, res.is_ok() && n > 0) {
                (Some((cz, wz)), true) => {
                    let mut ids0 = vec![UNWRITTEN; n];
                    let mut alg0 = coupe::HilbertCurve { part_count: parts, order: order as u32 };
                    if dim == 2 {
                        let _ = alg0.partition(&mut ids0, (&pts2(cz)[..], wz.clone()));
                    } else {
                        let _ = alg0.partition(&mut ids0, (&pts3(cz)[..], wz.clone()));
                    }
                    Some(ids0)
                }
                _ => None,
            };
            HilRan { res, ids, idx, pos, unscaled, poszero }
        })
    });
    if let Some((out, v)) = caught_out(&r) {
        let v = if parts == 0 { None } else { v };
        ctx.count("hil:malformed-or-failed");
        finish(ctx, base, out, false, v);
        return;
    }
    let Caught::Ok(ran) = r else { unreachable!() };
    match ran.res {
        Err(e) => {
            let (out, v) = if e.starts_with("InvalidOrder") {
                let v = if order <= max_order {
                    Some(("hilbert-spurious-invalid-order".to_string(), e.clone()))
                } else {
                    None
                };
                ("err invalid-order".to_string(), v)
            } else {
                (format!("err {}", e), Some(("hilbert-unexpected-error".to_string(), e.clone())))
            };
            finish(ctx, base, out, false, v);
        }
        Ok(()) if n == 0 => finish(ctx, base, "ok-empty".into(), false, None),
        Ok(()) => {
            let mut v = None;
            if order > max_order {
                v = Some(("hilbert-order-accepted".to_string(), format!("order {} accepted", order)));
            }
            if v.is_none() {
                v = hilbert_oracle(&ran.idx, &ran.ids, parts);
            }
            if let (true, Some((ids0, pos0))) = (v.is_none(), &ran.unscaled) {
                ctx.count("scale:invariance-checked");
                if *pos0 != ran.pos || *ids0 != ran.ids {
                    v = Some((
                        "hilbert-scale-variance".to_string(),
                        format!(
                            "scale {:e}: positions {:?}… but {:?}… unscaled; {} ids differ",
                            scale.unwrap_or(1.0),
                            &ran.pos[..ran.pos.len().min(6)],
                            &pos0[..pos0.len().min(6)],
                            ids0.iter().zip(&ran.ids).filter(|(a, b)| a != b).count()
                        ),
                    ));
                }
            }
            if has_negzero {
                ctx.count("special:negzero:hil");
            }
            if let (true, Some(ids0)) = (v.is_none(), &ran.poszero) {
                if *ids0 != ran.ids {
                    v = Some((
                        "negzero-dependent@HilbertCurve".to_string(),
                        format!("{} ids differ from the run with +0.0 in place of -0.0", ids0.iter().zip(&ran.ids).filter(|(a, b)| a != b).count()),
                    ));
                }
            }
            let exact = exact_weights(&ws);
            let src = if own_refinement(exact, n, parts) { "m" } else { "h" };
            ctx.count(&format!("hil:src:{}", src));
            ctx.count(&format!("hil:dim{}:pool{}", dim, pool));
            let out = format!("ok {} | {} | {}", src, list(&ran.pos), list(&ran.ids));
            let op = if generated {
                // generated weights are integers: written in decimal for the model
                let wi: Vec<u64> = ws_base.iter().map(|w| *w as u64).collect();
                format!("{} => {} {} {} {}", base, join(&ran.idx), join(&wi), ran.pos.len(), join(&ran.pos))
            } else {
                format!("{} => {} {} {}", base, join(&ran.idx), ran.pos.len(), join(&ran.pos))
            }
            .trim_end()
            .to_string();
            finish(ctx, op, out, hil_nontrivial(&ran.idx, parts), v);
        }
    }
}

// ------------------------------------------------------------------ ZCurve

fn code_str(c: &[u8]) -> String {
    if c.is_empty() {
        "e".into()
    } else {
        c.iter().map(|d| char::from(b'0' + *d)).collect()
    }
}

/// The property on the implementation's output: along the points sorted by Z-order cell the ids
/// never decrease, part sizes differ by at most one, every id is below `parts`; the reordered
/// permutation itself is sorted by cell.
fn zcurve_oracle(codes: &[Vec<u8>], perm: &[usize], ids: &[usize], parts: usize) -> Option<(String, String)> {
    let n = ids.len();
    if let Some(p) = ids.iter().position(|&i| i >= parts) {
        return Some(("zcurve-id-out-of-range".into(), format!("point {} has id {} with {} parts", p, ids[p], parts)));
    }
    let mut ord: Vec<usize> = (0..n).collect();
    ord.sort_by(|&a, &b| (&codes[a], ids[a]).cmp(&(&codes[b], ids[b])));
    for w in ord.windows(2) {
        if ids[w[0]] > ids[w[1]] {
            return Some((
                "zcurve-not-monotone".into(),
                format!(
                    "cell {} < {} but part {} > {} (points {}, {})",
                    code_str(&codes[w[0]]),
                    code_str(&codes[w[1]]),
                    ids[w[0]],
                    ids[w[1]],
                    w[0],
                    w[1]
                ),
            ));
        }
    }
    let mut sizes = vec![0usize; parts];
    for &i in ids {
        sizes[i] += 1;
    }
    let (mn, mx) = (sizes.iter().min().copied().unwrap_or(0), sizes.iter().max().copied().unwrap_or(0));
    if mx - mn > 1 {
        return Some(("zcurve-sizes".into(), format!("part sizes range from {} to {}", mn, mx)));
    }
    let mut seen = vec![false; n];
    for &p in perm {
        if p >= n || seen[p] {
            return Some(("zcurve-perm-not-a-permutation".into(), format!("entry {}", p)));
        }
        seen[p] = true;
    }
    if perm.len() != n {
        return Some(("zcurve-perm-not-a-permutation".into(), format!("length {}", perm.len())));
    }
    for w in perm.windows(2) {
        if codes[w[0]] > codes[w[1]] {
            return Some((
                "zcurve-perm-not-sorted".into(),
                format!("cell {} before {}", code_str(&codes[w[0]]), code_str(&codes[w[1]])),
            ));
        }
    }
    None
}

/// The library's CELL ARITHMETIC restated independently (the executable model of
/// `BoundingBox::{from_points, contains, center, region, sub_aabb}` as documented: the box of the
/// points in the oriented frame is halved `order` times, the centre of a cell is `(min + max) / 2`,
/// bit `i` of a region is set when the coordinate is strictly ABOVE the centre by the IEEE
/// comparison, a point the tolerance test `min - 10 eps < x < max + 10 eps` puts outside gets region
/// 0). Input: the points mapped into the frame (hook `geometry::obb_frame`: one matrix-vector
/// product each, no cell arithmetic involved). Every operation is an IEEE comparison or an exactly
/// specified `+`, `/ 2`: the sign of a zero (in a coordinate, a box corner or a centre) cannot
/// matter, the halving of subnormal cells rounds as `(min + max) / 2` rounds. The same arithmetic
/// is run by the Lean driver (`cellDigits`) on the same mapped points.
fn ref_cells(dim: usize, mapped: &[f64], order: usize) -> Vec<Vec<u8>> {
    let eps = 10.0 * f64::EPSILON;
    let mut lo0 = vec![f64::MAX; dim];
    let mut hi0 = vec![f64::MIN; dim];
    for p in mapped.chunks(dim) {
        for i in 0..dim {
            if p[i] < lo0[i] {
                lo0[i] = p[i];
            }
            if hi0[i] < p[i] {
                hi0[i] = p[i];
            }
        }
    }
    mapped
        .chunks(dim)
        .map(|p| {
            let (mut lo, mut hi) = (lo0.clone(), hi0.clone());
            let mut code = Vec::with_capacity(order);
            for _ in 0..order {
                let inside = (0..dim).all(|i| p[i] < hi[i] + eps && p[i] > lo[i] - eps);
                let centre: Vec<f64> = (0..dim).map(|i| (lo[i] + hi[i]) / 2.0).collect();
                let mut r = 0u8;
                if inside {
                    for i in 0..dim {
                        if p[i] > centre[i] {
                            r |= 1 << i;
                        }
                    }
                }
                for i in 0..dim {
                    if (r >> i) & 1 == 0 {
                        hi[i] = centre[i];
                    } else {
                        lo[i] = centre[i];
                    }
                }
                code.push(r);
            }
            code
        })
        .collect()
}

/// The mapped points travel to the model (which then computes the cells itself) up to this many values.
const MAPPED_CAP: usize = 60_000;

struct ZcRan {
    /// the points in the frame of the oriented bounding box (hook), flattened
    mapped: Option<Vec<f64>>,
    ids: Vec<usize>,
    perm: Vec<usize>,
    codes: Vec<Vec<u8>>,
    /// ids of the same call with `+0.0` in place of every `-0.0` coordinate
    poszero: Option<Vec<usize>>,
}

fn run_zc(ctx: &mut Ctx, t: &mut Toks) -> Option<()> {
    let dim = t.usize()?;
    let pool = t.usize()?;
    let order = t.u64()?;
    let parts = t.usize()?;
    let n = t.usize()?;
    if !(dim == 2 || dim == 3) || pool == 0 || pool > 64 || order > u32::MAX as u64 {
        return None;
    }
    let coords = t.many(n * dim, |t| t.f64())?;
    if !t.at_end() {
        return None;
    }
    let base = format!(
        "zc {} {} {} {} {} {}",
        dim,
        pool,
        order,
        parts,
        n,
        join(&coords.iter().map(|w| hex(*w)).collect::<Vec<_>>())
    )
    .split_whitespace()
    .collect::<Vec<_>>()
    .join(" ");
    zc_exec(ctx, base, dim, pool, order, parts, n, coords, 0);
    Some(())
}

#[allow(clippy::too_many_arguments)]
fn zc_exec(ctx: &mut Ctx, base: String, dim: usize, pool: usize, order: u64, parts: usize, n: usize, coords: Vec<f64>, reuse: usize) {
    let coords2 = coords.clone();
    let negzero = without_negzero(&coords);
    if negzero.is_some() {
        ctx.count("special:negzero:zc");
    }
    let r = catch_timeout(WATCHDOG_S, move || {
        with_pool(pool, || {
            let mut ids = vec![UNWRITTEN; n];
            let mut alg = coupe::ZCurve { part_count: parts, order: order as u32 };
            if dim == 2 {
                let p = pts2(&coords2);
                if reuse == 1 {
                    let q: Vec<Point2D> = p.iter().rev().copied().collect();
                    alg.partition(&mut ids, &q[..]).unwrap();
                } else if reuse >= 2 {
                    alg.part_count = (parts / 2).max(1);
                    alg.partition(&mut ids, &p[..]).unwrap();
                    alg.part_count = parts;
                }
                alg.partition(&mut ids, &p[..]).unwrap();
                let perm = coupe::verif::z_curve::permutation::<2>(&p, order as u32);
                let codes = coupe::verif::z_curve::codes::<2>(&p, order as u32);
                let poszero = negzero.as_ref().map(|cz| {
                    let mut ids0 = vec![UNWRITTEN; n];
                    coupe::ZCurve { part_count: parts, order: order as u32 }.partition(&mut ids0, &pts2(cz)[..]).unwrap();
                    ids0
                });
                let mapped = coupe::verif::geometry::obb_frame::<2>(&p).map(|(m, _)| m.iter().flat_map(|q| [q[0], q[1]]).collect::<Vec<f64>>());
                ZcRan { mapped, ids, perm, codes, poszero }
            } else {
                let p = pts3(&coords2);
                if reuse == 1 {
                    let q: Vec<Point3D> = p.iter().rev().copied().collect();
                    alg.partition(&mut ids, &q[..]).unwrap();
                } else if reuse >= 2 {
                    alg.part_count = (parts / 2).max(1);
                    alg.partition(&mut ids, &p[..]).unwrap();
                    alg.part_count = parts;
                }
                alg.partition(&mut ids, &p[..]).unwrap();
                let perm = coupe::verif::z_curve::permutation::<3>(&p, order as u32);
                let codes = coupe::verif::z_curve::codes::<3>(&p, order as u32);
                let poszero = negzero.as_ref().map(|cz| {
                    let mut ids0 = vec![UNWRITTEN; n];
                    coupe::ZCurve { part_count: parts, order: order as u32 }.partition(&mut ids0, &pts3(cz)[..]).unwrap();
                    ids0
                });
                let mapped = coupe::verif::geometry::obb_frame::<3>(&p).map(|(m, _)| m.iter().flat_map(|q| [q[0], q[1], q[2]]).collect::<Vec<f64>>());
                ZcRan { mapped, ids, perm, codes, poszero }
            }
        })
    });
    if let Some((out, v)) = caught_out(&r) {
        // malformed: no part at all, or an order the hash type cannot hold
        let v = if parts == 0 || order > 42 { None } else { v };
        ctx.count("zc:malformed-or-failed");
        finish(ctx, base, out, false, v);
        return;
    }
    let Caught::Ok(ran) = r else { unreachable!() };
    let mut v = zcurve_oracle(&ran.codes, &ran.perm, &ran.ids, parts);
    if let (true, Some(ids0)) = (v.is_none(), &ran.poszero) {
        // equal cells may be split differently by the unstable sort only if the inputs differ as
        // sort keys; -0.0 and +0.0 compare equal everywhere, so the ids must be identical
        if *ids0 != ran.ids {
            v = Some((
                "negzero-dependent@ZCurve".to_string(),
                format!("{} ids differ from the run with +0.0 in place of -0.0", ids0.iter().zip(&ran.ids).filter(|(a, b)| a != b).count()),
            ));
        }
    }
    // independent cells: the contiguity oracle over the cells of the reference arithmetic, then the
    // exact comparison of the cells the algorithm's own functions report with them
    let mut mapped_for_model: Option<&Vec<f64>> = None;
    match &ran.mapped {
        Some(mapped) if mapped.len() == n * dim && mapped.iter().all(|x| x.is_finite()) => {
            ctx.count("zc:ref-cells:checked");
            if mapped.iter().any(|x| *x != 0.0 && x.abs() < f64::MIN_POSITIVE) {
                ctx.count("zc:ref-cells:subnormal-frame-coordinates");
            }
            if (0..dim).any(|i| mapped.chunks(dim).all(|p| p[i] == 0.0)) {
                ctx.count("zc:ref-cells:degenerate-zero-axis");
                if (0..dim).any(|i| mapped.chunks(dim).all(|p| p[i] == 0.0) && mapped.chunks(dim).any(|p| p[i].is_sign_negative()) && mapped.chunks(dim).any(|p| p[i].is_sign_positive())) {
                    ctx.count("zc:ref-cells:degenerate-zero-axis:both-signs");
                }
            }
            let refc = ref_cells(dim, mapped, order as usize);
            if v.is_none() {
                v = zcurve_oracle(&refc, &ran.perm, &ran.ids, parts).map(|(s, w)| (s, format!("{} [cells of the reference arithmetic on the frame coordinates]", w)));
            }
            if v.is_none() && refc != ran.codes {
                let p = (0..n).find(|&p| refc.get(p) != ran.codes.get(p)).unwrap_or(0);
                v = Some((
                    "zcurve-cell-differs-from-reference".to_string(),
                    format!(
                        "point {} (frame coordinates {}): the algorithm's functions put it in cell {}, the reference arithmetic in {}",
                        p,
                        fmt_f(&mapped[p * dim..(p + 1) * dim]),
                        ran.codes.get(p).map(|c| code_str(c)).unwrap_or("?".into()),
                        refc.get(p).map(|c| code_str(c)).unwrap_or("?".into())
                    ),
                ));
            }
            if mapped.len() <= MAPPED_CAP {
                mapped_for_model = Some(mapped);
            }
        }
        Some(_) => ctx.count("zc:ref-cells:not-judged:non-finite-frame"),
        None => ctx.count("zc:ref-cells:not-judged:no-frame"),
    }
    let a: Vec<String> = ran.perm.iter().map(|&p| ran.codes.get(p).map(|c| code_str(c)).unwrap_or("?".into())).collect();
    let mut pairs: Vec<(&Vec<u8>, usize)> = ran.codes.iter().zip(ran.ids.iter().copied()).collect();
    pairs.sort();
    let b: Vec<String> = pairs.iter().map(|(c, i)| format!("{}:{}", code_str(c), i)).collect();
    let out = format!("ok | {} | {}", list(&a), list(&b));
    let op = format!("{} => {}", base, join(&ran.codes.iter().map(|c| code_str(c)).collect::<Vec<_>>()))
        .trim_end()
        .to_string();
    // `| <frame coordinates…>`: the model computes the cells itself from them (and ignores the hook's)
    let op = match mapped_for_model {
        Some(m) if n > 0 => format!("{} | {}", op, fmt_f(m)),
        _ => op,
    };
    let mut distinct = ran.codes.clone();
    distinct.sort();
    distinct.dedup();
    ctx.count(&format!("zc:dim{}:pool{}", dim, pool));
    ctx.count(if parts > n { "zc:parts>n" } else if parts == n { "zc:parts=n" } else { "zc:parts<n" });
    ctx.count(if distinct.len() == n { "zc:codes-all-distinct" } else { "zc:codes-with-ties" });
    finish(ctx, op, out, n >= 2 && parts >= 2 && distinct.len() >= 2, v);
}

// ------------------------------------------------------------------ generated (large / corner) inputs

/// Point families of the large-n / corner stream, generated from a descriptor so that the op line
/// stays short. Families 0 and 1 are point-symmetric integer sets (`p` and `-p` both present,
/// |coordinate| <= 8191): the centroid is exactly 0 and every inertia sum is an exact integer
/// below 2^53 for any n up to 2^25, so the bounding box does not depend on rayon's reduction
/// tree and the three calls (partition, index hook, code hook) see the same box on any pool.
///   0 sym-random  random integer points with their mirror images
///   1 grid-rows   a grid numbered row by row, rows of 4096 (even seed) or 8192 (odd seed) nodes,
///                 completed by symmetric random pairs (and the origin) up to n points
///   2 uniform     53-bit uniform floats (only used on a 1-thread pool)
/// Layouts (order in which the points are handed to the algorithm):
///   0 as generated (grid: row by row)   1 / 2 ascending x inside runs of 4096 / 8192 points
///   3 shuffled   4 globally ascending x  5 sorted along the curve (by the hook's index / cell)
///   6 sorted along the curve inside runs of 4096 points
fn gen_family(dim: usize, n: usize, family: usize, seed: u64) -> Vec<f64> {
    let mut rng = Rng::new(seed ^ 0xC09);
    let mut c: Vec<f64> = Vec::with_capacity(n * dim);
    match family {
        2 => {
            for _ in 0..n * dim {
                c.push((rng.below(1 << 53) as f64) / (1u64 << 53) as f64);
            }
        }
        _ => {
            let mut half: Vec<Vec<i64>> = Vec::with_capacity(n / 2);
            if family == 1 {
                let w = if seed % 2 == 0 { 4096usize } else { 8192 };
                let h = n / w;
                // the first h*w/2 nodes of the grid in row-major order; the mirror image of node
                // t is node h*w-1-t, so first half + reversed mirrored half = the whole grid
                for t in 0..(h * w) / 2 {
                    let (i, j) = ((t % w) as i64, (t / w) as i64);
                    let mut q = vec![2 * i - (w as i64 - 1), 2 * j - (h as i64 - 1)];
                    if dim == 3 {
                        q.push(0);
                    }
                    half.push(q);
                }
            }
            let grid_half = half.len();
            while half.len() < n / 2 {
                let q: Vec<i64> = (0..dim).map(|_| rng.range(-1024, 1024)).collect();
                half.push(q);
            }
            // grid part first (row by row), then its mirror in reverse (continues the row order),
            // then the extra pairs, then the origin
            for q in &half[..grid_half] {
                c.extend(q.iter().map(|x| *x as f64));
            }
            for q in half[..grid_half].iter().rev() {
                c.extend(q.iter().map(|x| -*x as f64));
            }
            for q in &half[grid_half..] {
                c.extend(q.iter().map(|x| *x as f64));
                c.extend(q.iter().map(|x| -*x as f64));
            }
            if n % 2 == 1 {
                c.extend(std::iter::repeat(0.0).take(dim));
            }
        }
    }
    c
}

fn apply_layout(dim: usize, coords: Vec<f64>, layout: usize, seed: u64, curve_key: impl Fn(&[f64]) -> Option<Vec<Vec<u8>>>) -> Vec<f64> {
    let n = coords.len() / dim;
    let mut order: Vec<usize> = (0..n).collect();
    let by_x = |a: &usize, b: &usize| coords[a * dim].partial_cmp(&coords[b * dim]).unwrap().then(a.cmp(b));
    match layout {
        1 | 2 => {
            let run = if layout == 1 { 4096 } else { 8192 };
            for ch in order.chunks_mut(run) {
                ch.sort_by(by_x);
            }
        }
        3 => Rng::new(seed ^ 0x5FF1E).shuffle(&mut order),
        4 => order.sort_by(by_x),
        5 | 6 => {
            if let Some(keys) = curve_key(&coords) {
                if layout == 5 {
                    order.sort_by(|a, b| keys[*a].cmp(&keys[*b]).then(a.cmp(b)));
                } else {
                    for ch in order.chunks_mut(4096) {
                        ch.sort_by(|a, b| keys[*a].cmp(&keys[*b]).then(a.cmp(b)));
                    }
                }
            }
        }
        _ => {}
    }
    let mut out = Vec::with_capacity(coords.len());
    for p in order {
        out.extend_from_slice(&coords[p * dim..(p + 1) * dim]);
    }
    out
}

/// Integer weights of the generated stream (sum below 2^53 by construction).
///   0 ones  1 small ints  2 one dominant  3 many zeros  4 near 2^53 in total  5 ramp per block of 4096
fn gen_int_weights(n: usize, wmode: usize, seed: u64) -> Vec<f64> {
    let mut rng = Rng::new(seed ^ 0x3E16);
    let mut w: Vec<u64> = (0..n)
        .map(|i| match wmode {
            0 => 1,
            1 => 1 + rng.below(10),
            2 => 1 + rng.below(3),
            3 => {
                if rng.chance(2, 3) {
                    0
                } else {
                    1 + rng.below(5)
                }
            }
            4 => ((1u64 << 53) - 1) / n.max(1) as u64 - rng.below(1000.min(((1u64 << 53) - 1) / n.max(1) as u64)),
            _ => 1 + (i as u64 / 4096) % 7,
        })
        .collect();
    if wmode == 2 && n > 0 {
        let k = rng.usize(n);
        w[k] = 100_000;
    }
    w.into_iter().map(|x| x as f64).collect()
}

fn run_hilg(ctx: &mut Ctx, t: &mut Toks) -> Option<()> {
    let dim = t.usize()?;
    let pool = t.usize()?;
    let order = t.u64()?;
    let parts = t.usize()?;
    let n = t.usize()?;
    let family = t.usize()?;
    let layout = t.usize()?;
    let wmode = t.usize()?;
    let seed = t.u64()?;
    let reuse = t.usize()?;
    if !(dim == 2 || dim == 3) || pool == 0 || pool > 64 || order > 64 || n > (1 << 22) || family > 2 || !t.at_end() {
        return None;
    }
    let base = format!("hilg {} {} {} {} {} {} {} {} {} {}", dim, pool, order, parts, n, family, layout, wmode, seed, reuse);
    let coords = gen_family(dim, n, family, seed);
    let coords = apply_layout(dim, coords, layout, seed, |c| {
        // curve order from the index hook (input construction only)
        let c = c.to_vec();
        match catch(move || {
            with_pool(1, || {
                if dim == 2 {
                    coupe::verif::hilbert::indices_2d(&pts2(&c), order as usize)
                } else {
                    coupe::verif::hilbert::indices_3d(&pts3(&c), order as usize)
                }
            })
        }) {
            Caught::Ok(idx) => Some(idx.into_iter().map(|i| i.to_be_bytes().to_vec()).collect()),
            _ => None,
        }
    });
    let ws = gen_int_weights(n, wmode, seed);
    if reuse > 0 {
        ctx.count("reuse");
        ctx.count(&format!("reuse:hil:{}", reuse_name(reuse)));
    }
    ctx.count(&format!("gen:hil:family{}:layout{}", family, layout));
    hil_exec(ctx, base, dim, pool, order, parts, n, coords, ws, None, reuse, true);
    Some(())
}

fn run_zcg(ctx: &mut Ctx, t: &mut Toks) -> Option<()> {
    let dim = t.usize()?;
    let pool = t.usize()?;
    let order = t.u64()?;
    let parts = t.usize()?;
    let n = t.usize()?;
    let family = t.usize()?;
    let layout = t.usize()?;
    let seed = t.u64()?;
    let reuse = t.usize()?;
    if !(dim == 2 || dim == 3) || pool == 0 || pool > 64 || order > 64 || n > (1 << 22) || family > 2 || !t.at_end() {
        return None;
    }
    let base = format!("zcg {} {} {} {} {} {} {} {} {}", dim, pool, order, parts, n, family, layout, seed, reuse);
    let coords = gen_family(dim, n, family, seed);
    let coords = apply_layout(dim, coords, layout, seed, |c| {
        let c = c.to_vec();
        match catch(move || {
            with_pool(1, || {
                if dim == 2 {
                    coupe::verif::z_curve::codes::<2>(&pts2(&c), order as u32)
                } else {
                    coupe::verif::z_curve::codes::<3>(&pts3(&c), order as u32)
                }
            })
        }) {
            Caught::Ok(codes) => Some(codes),
            _ => None,
        }
    });
    if reuse > 0 {
        ctx.count("reuse");
        ctx.count(&format!("reuse:zc:{}", reuse_name(reuse)));
    }
    ctx.count(&format!("gen:zc:family{}:layout{}", family, layout));
    zc_exec(ctx, base, dim, pool, order, parts, n, coords, reuse);
    Some(())
}

pub fn run_op(ctx: &mut Ctx, op: &str) {
    if ctx.hang_limit_reached() {
        return;
    }
    let mut t = Toks(op.split_whitespace());
    let r = match t.0.next() {
        Some("bs") => run_bs(ctx, op, &mut t),
        Some("wq") => run_wq(ctx, &mut t, false),
        Some("wqs") => run_wq(ctx, &mut t, true),
        Some("hil") => run_hil(ctx, &mut t, false),
        Some("hils") => run_hil(ctx, &mut t, true),
        Some("zc") => run_zc(ctx, &mut t),
        Some("hilg") => run_hilg(ctx, &mut t),
        Some("zcg") => run_zcg(ctx, &mut t),
        Some("cx") => run_cx(ctx, &mut t),
        Some("rs") => run_rs(ctx, &mut t),
        Some("seq") => run_seq(ctx, op),
        _ => None,
    };
    if r.is_none() {
        ctx.record(op.to_string(), "bad-op".into(), false);
    }
}

// ------------------------------------------------------------------ generator

const POOLS: [usize; 4] = [1, 1, 4, 16];

fn gen_n(ctx: &mut Ctx) -> usize {
    let big = if ctx.quick() { 600 } else { 2000 };
    match ctx.rng.usize(100) {
        0..=9 => 1 + ctx.rng.usize(3),
        10..=49 => 2 + ctx.rng.usize(15),
        50..=84 => 10 + ctx.rng.usize(90),
        85..=96 => 100 + ctx.rng.usize(300),
        _ => 400 + ctx.rng.usize(big - 399),
    }
}

fn gen_parts(ctx: &mut Ctx, n: usize) -> usize {
    match ctx.rng.usize(20) {
        0 => 1,
        1 => n,
        2 | 3 => n + 1 + ctx.rng.usize(n + 3),
        4..=6 => 2,
        7..=12 => 1 + ctx.rng.usize(n.min(16)),
        _ => 1 + ctx.rng.usize(n),
    }
}

/// Point families. For pools with more than one thread only families whose inertia-matrix sums
/// are exact (coordinates `n * m * 2^e`, `|m| <= 256`, so the centroid and every product are
/// exact integers below 2^53) are used: rayon's reduction tree is not reproducible there and the
/// three calls (partition, index hook, code hook) must see the same bounding box (K6, property C06).
fn gen_points(ctx: &mut Ctx, n: usize, dim: usize, exact: bool) -> (Vec<f64>, &'static str) {
    let shape = if !exact && ctx.rng.chance(3, 5) { 5 + ctx.rng.usize(3) } else { ctx.rng.usize(5) };
    let scale = if exact { n as f64 * [1.0, 0.5, 0.001953125, 1024.0][ctx.rng.usize(4)] } else { 1.0 };
    let mut c = Vec::with_capacity(n * dim);
    let name = match shape {
        0 => {
            // small integer grid, many ties
            let side = 1 + ctx.rng.usize(6) as i64;
            for _ in 0..n * dim {
                c.push(ctx.rng.range(0, side) as f64 * scale);
            }
            "grid-small"
        }
        1 => {
            for _ in 0..n * dim {
                c.push(ctx.rng.range(-256, 256) as f64 * scale);
            }
            "grid-wide"
        }
        2 => {
            // clusters
            let k = 1 + ctx.rng.usize(4);
            let centres: Vec<i64> = (0..k * dim).map(|_| ctx.rng.range(-200, 200)).collect();
            for _ in 0..n {
                let j = ctx.rng.usize(k);
                for d in 0..dim {
                    c.push((centres[j * dim + d] + ctx.rng.range(-8, 8)) as f64 * scale);
                }
            }
            "clusters"
        }
        3 => {
            // duplicates of a few points
            let k = 1 + ctx.rng.usize(3);
            let base: Vec<i64> = (0..k * dim).map(|_| ctx.rng.range(-50, 50)).collect();
            for _ in 0..n {
                let j = ctx.rng.usize(k);
                for d in 0..dim {
                    c.push(base[j * dim + d] as f64 * scale);
                }
            }
            "duplicates"
        }
        4 => {
            // a line (degenerate box), in order or shuffled
            let shuffled = ctx.rng.chance(1, 2);
            let mut xs: Vec<i64> = (0..n as i64).collect();
            if shuffled {
                ctx.rng.shuffle(&mut xs);
            }
            let dir: Vec<i64> = (0..dim).map(|d| if d == 0 { 1 } else { ctx.rng.range(-1, 1) }).collect();
            for x in xs {
                for d in 0..dim {
                    c.push(((x % 257) * dir[d]) as f64 * scale);
                }
            }
            "line"
        }
        5 => {
            for _ in 0..n * dim {
                c.push((ctx.rng.below(1 << 53) as f64) / (1u64 << 53) as f64);
            }
            "uniform"
        }
        6 => {
            // anisotropic uniform cloud, rotated
            let (s, co) = (0.6f64, 0.8f64);
            for _ in 0..n {
                let x = (ctx.rng.below(1 << 40) as f64) / (1u64 << 40) as f64 * 100.0;
                let y = (ctx.rng.below(1 << 40) as f64) / (1u64 << 40) as f64;
                c.push(co * x - s * y);
                c.push(s * x + co * y);
                if dim == 3 {
                    c.push((ctx.rng.below(1 << 40) as f64) / (1u64 << 40) as f64 * 3.0);
                }
            }
            "rotated"
        }
        _ => {
            // huge / tiny magnitudes
            // squares must stay finite: the inertia matrix sums products of coordinates
            let e = [1e-200, 1e-9, 1e9, 1e100][ctx.rng.usize(4)];
            for _ in 0..n * dim {
                c.push(ctx.rng.range(-1000, 1000) as f64 * e);
            }
            "magnitude"
        }
    };
    (c, name)
}

fn gen_weights(ctx: &mut Ctx, n: usize, exact: bool) -> (Vec<f64>, &'static str) {
    let mode = if !exact && ctx.rng.chance(1, 2) { 6 + ctx.rng.usize(2) } else { ctx.rng.usize(6) };
    let mut w: Vec<f64> = Vec::with_capacity(n);
    let name = match mode {
        0 => {
            w.resize(n, 1.0);
            "ones"
        }
        1 => {
            for _ in 0..n {
                w.push(ctx.rng.range(1, 10) as f64);
            }
            "small-int"
        }
        2 => {
            for _ in 0..n {
                w.push(ctx.rng.range(1, 3) as f64);
            }
            let k = ctx.rng.usize(n);
            w[k] = ctx.rng.range(100, 100000) as f64;
            "one-dominant"
        }
        3 => {
            for _ in 0..n {
                w.push(if ctx.rng.chance(2, 3) { 0.0 } else { ctx.rng.range(1, 5) as f64 });
            }
            "many-zero"
        }
        4 => {
            w.resize(n, 0.0);
            "all-zero"
        }
        5 => {
            for _ in 0..n {
                w.push((1u64 << ctx.rng.usize(40)) as f64);
            }
            "powers-of-two"
        }
        6 => {
            for _ in 0..n {
                w.push((ctx.rng.below(1 << 53) as f64) / (1u64 << 53) as f64);
            }
            "uniform-float"
        }
        _ => {
            for _ in 0..n {
                w.push((ctx.rng.below(1 << 30) as f64 + 1.0) * [1e-12, 0.1, 1e7][ctx.rng.usize(3)]);
            }
            "float-skewed"
        }
    };
    (w, name)
}

fn fmt_f(xs: &[f64]) -> String {
    join(&xs.iter().map(|w| hex(*w)).collect::<Vec<_>>())
}

fn gen_hil(ctx: &mut Ctx) {
    let dim = if ctx.rng.chance(3, 5) { 2 } else { 3 };
    let pool = *ctx.rng.pick(&POOLS);
    let n = gen_n(ctx);
    let parts = gen_parts(ctx, n);
    let max_order = if dim == 2 { 32 } else { 21 };
    let order = match ctx.rng.usize(6) {
        0 => max_order,
        1 => 1,
        2 => 1 + ctx.rng.usize(4),
        _ => 1 + ctx.rng.usize(max_order),
    };
    let exact = pool > 1 || ctx.rng.chance(1, 4);
    let (c, shape) = gen_points(ctx, n, dim, exact);
    let wexact = pool > 1 || ctx.rng.chance(1, 2);
    let (w, wname) = gen_weights(ctx, n, wexact);
    ctx.count(&format!("hil:shape:{}", shape));
    ctx.count(&format!("hil:weights:{}", wname));
    ctx.count(if parts > n { "hil:parts>n" } else if parts == n { "hil:parts=n" } else { "hil:parts<n" });
    let op = format!("hil {} {} {} {} {} {} {}", dim, pool, order, parts, n, fmt_f(&c), fmt_f(&w));
    run_op(ctx, &op);
}

fn gen_wq(ctx: &mut Ctx) {
    let pool = *ctx.rng.pick(&POOLS);
    let n = if ctx.rng.chance(1, 2) { 1 + ctx.rng.usize(12) } else { gen_n(ctx).min(500) };
    let parts = gen_parts(ctx, n).max(1);
    let exact = pool > 1 || ctx.rng.chance(2, 3);
    let shape = ctx.rng.usize(6);
    let idx: Vec<u64> = (0..n)
        .map(|_| match shape {
            0 => ctx.rng.below(16),
            1 => ctx.rng.below(1 << 20),
            2 => ctx.rng.next(),
            3 => u64::MAX - ctx.rng.below(64),
            4 => {
                // few distinct values far apart
                [0u64, 1, 1 << 32, u64::MAX][ctx.rng.usize(4)]
            }
            _ => ctx.rng.below(2 * n as u64 + 1),
        })
        .collect();
    let (w, wname) = gen_weights(ctx, n, exact);
    ctx.count(&format!("wq:shape:{}", shape));
    ctx.count(&format!("wq:weights:{}", wname));
    let op = format!("wq {} {} {} {} {}", pool, parts, n, join(&idx), fmt_f(&w));
    run_op(ctx, &op);
}

/// Deep orders (13 ..= the maximum the algorithm accepts: 64 in 2-D, 42 in 3-D) on small point
/// sets whose points share a cell down to a great depth and separate only deeper: a tight cluster
/// with offsets k * 2^-e (e in 30..=60) next to a corner of a box of side 8 pinned by two far points.
fn gen_zc_deep(ctx: &mut Ctx) {
    let dim = if ctx.rng.chance(3, 5) { 2 } else { 3 };
    let max_order = if dim == 2 { 64 } else { 42 };
    let order = match ctx.rng.usize(4) {
        0 => max_order,
        1 => 54 .min(max_order),
        _ => 13 + ctx.rng.usize(max_order - 12),
    };
    let n = 3 + ctx.rng.usize(30);
    let parts = gen_parts(ctx, n);
    let e = 30 + ctx.rng.usize(31) as i32;
    let unit = (2.0f64).powi(-e);
    let mut c: Vec<f64> = Vec::with_capacity(n * dim);
    for i in 0..n {
        for d in 0..dim {
            let v = if i == 0 {
                0.0
            } else if i == 1 {
                8.0
            } else {
                // cluster near (1,1[,1]): exactly representable offsets
                1.0 + unit * ctx.rng.below(64) as f64 * if d == 0 { 1.0 } else { 3.0 }
            };
            c.push(v);
        }
    }
    ctx.count("zc:shape:deep-cluster");
    ctx.count(&format!("zc:order:deep:{}", if order == max_order { "max".to_string() } else if order >= 54 { "54+".to_string() } else { "13-53".to_string() }));
    let op = format!("zc {} {} {} {} {} {}", dim, 1, order, parts, n, fmt_f(&c));
    run_op(ctx, &op);
}

fn gen_zc(ctx: &mut Ctx) {
    if ctx.rng.chance(1, 6) {
        return gen_zc_deep(ctx);
    }
    let dim = if ctx.rng.chance(3, 5) { 2 } else { 3 };
    let pool = *ctx.rng.pick(&POOLS);
    let n = gen_n(ctx);
    let parts = gen_parts(ctx, n);
    let order = match ctx.rng.usize(6) {
        0 => 0,
        1 => 1,
        2 => 12,
        _ => ctx.rng.usize(13),
    };
    let exact = pool > 1 || ctx.rng.chance(1, 4);
    let (c, shape) = gen_points(ctx, n, dim, exact);
    ctx.count(&format!("zc:shape:{}", shape));
    ctx.count(&format!("zc:order:{}", order));
    let op = format!("zc {} {} {} {} {} {}", dim, pool, order, parts, n, fmt_f(&c));
    run_op(ctx, &op);
}

pub fn generate(ctx: &mut Ctx) {
    // (1) std binary_search: exhaustive over a small alphabet, then random slices
    let (alpha, maxlen) = if ctx.quick() { (3u64, 6usize) } else { (4, 7) };
    for len in 0..=maxlen {
        let mut v = vec![0u64; len];
        loop {
            for key in 0..=alpha {
                run_op(ctx, &format!("bs {} {} {}", key, len, join(&v)).trim_end().to_string());
            }
            let mut i = 0;
            while i < len {
                if v[i] + 1 < alpha {
                    v[i] += 1;
                    break;
                }
                v[i] = 0;
                i += 1;
            }
            if i == len {
                break;
            }
        }
    }
    ctx.notes.push(format!(
        "exhaustive sub-space (binary_search): every u64 slice over 0..{} of length 0..={} (sorted or not) x keys 0..={}",
        alpha, maxlen, alpha
    ));
    for _ in 0..ctx.budget(400, 8000) {
        let cap = if ctx.rng.chance(1, 4) { 300 } else { 40 };
        let len = ctx.rng.usize(cap);
        let span = [4u64, 50, 1 << 40][ctx.rng.usize(3)];
        let mut v: Vec<u64> = (0..len).map(|_| ctx.rng.below(span)).collect();
        if ctx.rng.chance(3, 4) {
            v.sort_unstable();
        }
        let key = if len > 0 && ctx.rng.chance(1, 2) { v[ctx.rng.usize(len)] } else { ctx.rng.below(span + 1) };
        run_op(ctx, &format!("bs {} {} {}", key, len, join(&v)).trim_end().to_string());
    }
    // (2) ZCurve chunk table: every (n, k) up to a bound, points on a line with distinct cells
    let bound = if ctx.quick() { 18 } else { 40 };
    for n in 1..=bound {
        for k in 1..=bound + 2 {
            let dim = 2 + (n + k) % 2;
            let mut c = Vec::with_capacity(n * dim);
            for i in 0..n {
                // a shuffled line: position i holds abscissa (7 i mod n') to decouple input and curve order
                let x = (i * 7) % 41;
                c.push(x as f64 / 64.0);
                c.push(0.0);
                if dim == 3 {
                    c.push(0.0);
                }
            }
            ctx.count("zc:chunk-table");
            run_op(ctx, &format!("zc {} 1 8 {} {} {}", dim, k, n, fmt_f(&c)));
        }
    }
    ctx.notes.push(format!(
        "exhaustive sub-space (ZCurve chunk arithmetic): every (n, part_count) with 1 <= n <= {}, 1 <= part_count <= {}",
        bound,
        bound + 2
    ));
    // (3) random streams
    for _ in 0..ctx.budget(2000, 25000) {
        gen_hil(ctx);
    }
    for _ in 0..ctx.budget(2500, 25000) {
        gen_wq(ctx);
    }
    for _ in 0..ctx.budget(2000, 25000) {
        gen_zc(ctx);
    }
    // (4) LARGE stream: sizes just above / far above the usual block thresholds (not multiples of
    // powers of two), block-aligned and pre-sorted layouts, pools 1/2/3/16, object and buffer reuse
    large_stream(ctx);
    // (5) CORNER stream: part counts around 64/128/256, thousands of parts, 2 and 3 points,
    // chunk-size corners, weights near 2^53
    corner_stream(ctx);
    // (6) WEIGHT-SCALE stream (defect N6): the same inputs with every weight multiplied by a scale
    scale_stream(ctx);
    // (7) deep orders with ulp-neighbours AT the corners / faces of the bounding box
    zc_box_corner_stream(ctx);
    // (8) SPECIAL VALUES: signed zeros (coordinates, weights), subnormal and near-overflow totals
    negzero_stream(ctx);
    // (8b) signed zeros on DEGENERATE frame axes (lines / planes through zero, both signs) and
    // SUBNORMAL cells; all of them against the reference cell arithmetic
    zc_signed_zero_stream(ctx);
    zc_subnormal_stream(ctx);
    // (9) calling CONTEXT (global pool, inside a rayon task, concurrent calls, input types) and
    // FIRST-CALL sequences in a fresh child process
    context_stream(ctx);
    // (9b) REUSE SEQUENCES of one algorithm value across calls with different input sizes
    reuse_sequence_stream(ctx);
    // (10) malformed stream
    for _ in 0..ctx.budget(20, 200) {
        let n = 1 + ctx.rng.usize(5);
        let (c, _) = gen_points(ctx, n, 2, true);
        let (w, _) = gen_weights(ctx, n, true);
        let extra = ctx.rng.usize(40);
        match ctx.rng.usize(5) {
            0 => run_op(ctx, &format!("hil 2 1 {} 2 {} {} {}", 33 + extra, n, fmt_f(&c), fmt_f(&w))),
            1 => run_op(ctx, &format!("hil 2 1 5 0 {} {} {}", n, fmt_f(&c), fmt_f(&w))),
            2 => run_op(ctx, &format!("zc 2 1 3 0 {} {}", n, fmt_f(&c))),
            3 => run_op(ctx, &format!("zc 2 1 {} 2 {} {}", 70 + extra, n, fmt_f(&c))),
            _ => run_op(ctx, &format!("zc 2 1 3 {} 0", extra % 3)),
        }
        ctx.count("malformed");
    }
    let _ = hex(0.0);
}

const LARGE_POOLS: [usize; 4] = [1, 2, 3, 16];

fn size_class(n: usize) -> &'static str {
    match n {
        0..=5000 => "le-5000",
        5001..=12000 => "8k",
        12001..=30000 => "16k-20k",
        30001..=100000 => "65k-70k",
        _ => "131k-140k",
    }
}

/// family / layout / pool of one generated case: float points only on a 1-thread pool
fn gen_descr(ctx: &mut Ctx) -> (usize, usize, usize, u64, usize) {
    let pool = *ctx.rng.pick(&LARGE_POOLS);
    let family = if pool == 1 && ctx.rng.chance(1, 3) { 2 } else { ctx.rng.usize(2) };
    let layout = ctx.rng.usize(7);
    let seed = ctx.rng.below(1 << 40);
    let reuse = [0, 0, 1, 2][ctx.rng.usize(4)];
    (pool, family, layout, seed, reuse)
}

fn large_hil(ctx: &mut Ctx, n: usize, parts: usize) {
    let (pool, family, layout, seed, reuse) = gen_descr(ctx);
    let dim = if ctx.rng.chance(2, 3) { 2 } else { 3 };
    let max_order = if dim == 2 { 32 } else { 21 };
    let order = [max_order, 8, 12, 1 + ctx.rng.usize(max_order)][ctx.rng.usize(4)];
    let wmode = ctx.rng.usize(6);
    ctx.count(&format!("large:hil:{}", size_class(n)));
    ctx.count(&format!("large:pool{}", pool));
    run_op(ctx, &format!("hilg {} {} {} {} {} {} {} {} {} {}", dim, pool, order, parts, n, family, layout, wmode, seed, reuse));
}

/// ZCurve's reordering recomputes the region of ALL points at every node of the quadtree
/// (`points.par_iter()` in `z_curve_partition_recurse`), i.e. it costs (number of nodes) x n:
/// the order is capped so that one case stays within a few seconds.
fn zc_order_cap(quick: bool, n: usize, dim: usize) -> usize {
    let cap2 = match (quick, n) {
        (true, 0..=9000) => 9,
        (true, 9001..=30000) => 6,
        (true, _) => 5,
        (false, 0..=9000) => 12,
        (false, 9001..=30000) => 10,
        (false, 30001..=100000) => 7,
        (false, _) => 5,
    };
    if dim == 2 {
        cap2
    } else {
        (cap2 * 2) / 3
    }
}

fn large_zc(ctx: &mut Ctx, n: usize, parts: usize) {
    let (pool, family, layout, seed, reuse) = gen_descr(ctx);
    let dim = if ctx.rng.chance(2, 3) { 2 } else { 3 };
    let cap = zc_order_cap(ctx.quick(), n, dim);
    let order = if ctx.rng.chance(1, 2) { cap } else { 1 + ctx.rng.usize(cap) };
    ctx.count(&format!("large:zc:{}", size_class(n)));
    ctx.count(&format!("large:pool{}", pool));
    run_op(ctx, &format!("zcg {} {} {} {} {} {} {} {} {}", dim, pool, order, parts, n, family, layout, seed, reuse));
}

fn large_stream(ctx: &mut Ctx) {
    let hil_parts = |n: usize, k: usize, extra: usize| match k % 6 {
        0 => 2,
        1 => 64,
        2 => 257,
        3 => n / 3,
        4 => n,
        _ => n + 1 + extra,
    };
    if ctx.quick() {
        // every listed size with each of the six part counts
        for &n in &[8193usize, 20001, 70001] {
            for k in 0..6 {
                let extra = ctx.rng.usize(5000);
                large_hil(ctx, n, hil_parts(n, k, extra));
            }
        }
        for &n in &[16385usize + 37, 65537 + 11] {
            for _ in 0..2 {
                let k = ctx.rng.usize(6);
                let extra = ctx.rng.usize(5000);
                large_hil(ctx, n, hil_parts(n, k, extra));
            }
        }
        // ZCurve: the sizes with part counts around 64 / 256 and more parts than points
        let zp = [63usize, 64, 65, 256, 257];
        for &n in &[70001usize, 20001, 8193] {
            let k1 = *ctx.rng.pick(&zp);
            large_zc(ctx, n, k1);
            let extra = ctx.rng.usize(3000);
            let k2 = [n + 1 + extra, n / 3, n][ctx.rng.usize(3)];
            large_zc(ctx, n, k2);
        }
        // chunk-size corners at large n: n % parts = 1, parts - 1, 0
        ctx.count("corner:chunk-rem-1");
        large_zc(ctx, 64 * 312 + 1, 64);
        ctx.count("corner:chunk-rem-parts-1");
        large_zc(ctx, 257 * 31 + 256, 257);
        ctx.count("corner:chunk-rem-0");
        large_zc(ctx, 65 * 1077, 65);
    } else {
        for &n in &[4097usize, 8193, 16385 + 37, 20001, 65537 + 11, 70001, 131077, 140003] {
            let reps = if n > 100000 { 1 } else { 2 };
            for _ in 0..reps {
                for k in 0..6 {
                    let extra = ctx.rng.usize(5000);
                    large_hil(ctx, n, hil_parts(n, k, extra));
                }
            }
        }
        for &n in &[8193usize, 20001, 70001, 131077, 140003] {
            for &k in &[63usize, 64, 65, 256, 257] {
                large_zc(ctx, n, k);
            }
            let extra = ctx.rng.usize(3000);
            large_zc(ctx, n, n + 1 + extra);
            large_zc(ctx, n, n / 3);
            large_zc(ctx, n, n);
        }
        for &k in &[63usize, 64, 65, 256, 257] {
            for (name, r) in [("0", 0usize), ("1", 1), ("parts-1", k - 1)] {
                let q = [8193usize, 20001, 70001][ctx.rng.usize(3)] / k;
                ctx.count(&format!("corner:chunk-rem-{}", name));
                large_zc(ctx, k * q + r, k);
            }
        }
    }
    ctx.notes.push(
        "large stream: HilbertCurve at n = 8193, 16422, 20001, 65548, 70001 (thorough also 4097, 131077, 140003) with part counts \
         2, 64, 257, n/3, n, > n; ZCurve at the same sizes up to 70001 (thorough 140003) with part counts 63/64/65/256/257, n/3, n, > n \
         and n % parts in {0, 1, parts-1}; its reordering costs (quadtree nodes) x n, so the order is capped (quick: 9 / 6 / 5 for \
         n <= 9000 / 30000 / 70001; thorough: 12 / 10 / 7 / 5); pools of 1, 2, 3, 16 threads; layouts: row-by-row grids with rows of \
         4096 / 8192 nodes, ascending x in runs of 4096 / 8192, globally sorted, sorted along the curve (whole / in runs of 4096), \
         shuffled; full oracle AND exact comparison with the model on every one of them"
            .to_string(),
    );
}

fn corner_stream(ctx: &mut Ctx) {
    let reps = ctx.budget(2, 10);
    for _ in 0..reps {
        // part counts around the powers of two, thousands of parts
        for &k in &[63usize, 64, 65, 128, 255, 256, 257, 2000] {
            let parts = if k == 2000 { 2000 + ctx.rng.usize(3000) } else { k };
            let n = match ctx.rng.usize(3) {
                0 => parts + 1 + ctx.rng.usize(50),
                1 => 300 + ctx.rng.usize(2000),
                _ => 2000 + ctx.rng.usize(3000),
            };
            ctx.count(&format!("corner:parts-{}", if k == 2000 { "thousands".to_string() } else { k.to_string() }));
            let (pool, family, layout, seed, reuse) = gen_descr(ctx);
            let wmode = ctx.rng.usize(6);
            let order = 1 + ctx.rng.usize(32);
            run_op(ctx, &format!("hilg 2 {} {} {} {} {} {} {} {} {}", pool, order, parts, n, family, layout, wmode, seed, reuse));
            let (pool, family, layout, seed, reuse) = gen_descr(ctx);
            let order = 1 + ctx.rng.usize(10);
            let dim = 2 + ctx.rng.usize(2);
            run_op(ctx, &format!("zcg {} {} {} {} {} {} {} {} {}", dim, pool, order, parts, n, family, layout, seed, reuse));
        }
        // exactly two and three points
        for n in [2usize, 3] {
            for &parts in &[1usize, 2, 3, 4, 64] {
                ctx.count(&format!("corner:n-{}", n));
                let (pool, family, layout, seed, reuse) = gen_descr(ctx);
                let wmode = ctx.rng.usize(6);
                run_op(ctx, &format!("hilg 2 {} 7 {} {} {} {} {} {} {}", pool, parts, n, family, layout, wmode, seed, reuse));
                run_op(ctx, &format!("zcg 2 {} 5 {} {} {} {} {} {}", pool, parts, n, family, layout, seed, reuse));
            }
        }
        // chunk-size corners: n % parts = 0, 1, parts - 1
        for &k in &[2usize, 3, 63, 64, 65, 256, 257] {
            for (name, r) in [("0", 0usize), ("1", 1), ("parts-1", k - 1)] {
                let q = 1 + ctx.rng.usize(20);
                ctx.count(&format!("corner:chunk-rem-{}", name));
                let (pool, family, layout, seed, reuse) = gen_descr(ctx);
                let order = 4 + ctx.rng.usize(7);
                run_op(ctx, &format!("zcg 2 {} {} {} {} {} {} {} {}", pool, order, k, k * q + r, family, layout, seed, reuse));
            }
        }
        // weights with a total just below 2^53 (every partial sum is still exact)
        for _ in 0..3 {
            ctx.count("corner:weights-near-2^53");
            let (pool, family, layout, seed, reuse) = gen_descr(ctx);
            let n = 2 + ctx.rng.usize(3000);
            let parts = 1 + ctx.rng.usize(n.min(300));
            run_op(ctx, &format!("hilg 2 {} 16 {} {} {} {} 4 {} {}", pool, parts, n, family, layout, seed, reuse));
        }
    }
}

const DEC_SCALES: [f64; 7] = [1e-30, 1e-20, 1e-18, 1e-15, 1e-10, 1e10, 1e30];
/// 2^-60, 2^-30, 2^30: exact scalings – split positions and ids must be identical to the unscaled run
const POW2_SCALES: [f64; 3] = [
    1.0 / (1u64 << 60) as f64,
    1.0 / (1u64 << 30) as f64,
    (1u64 << 30) as f64,
];

/// Each base input (a `hil` or a `wq` case of modest size) is run with its weights multiplied by
/// the seven decimal scales (1-thread pool: the scaled weights are no longer exact, so only there
/// are the hook's positions those of the call) and by the three powers of two (any pool when the
/// base weights are integers and the points an exact-sum family). Oracle on all of them, watchdog
/// on the refinement loop; for the powers of two the harness also runs the unscaled weights and
/// requires identical positions and ids, and the model re-runs the refinement on the scaled weights.
fn scale_stream(ctx: &mut Ctx) {
    for _ in 0..ctx.budget(100, 1500) {
        let multi = ctx.rng.chance(1, 2);
        let n = gen_n(ctx).min(300);
        let parts = gen_parts(ctx, n).max(1);
        let wexact = multi || ctx.rng.chance(1, 2);
        let (w, wname) = gen_weights(ctx, n, wexact);
        ctx.count(&format!("scale:weights:{}", wname));
        let big_pool = if multi { [4usize, 16][ctx.rng.usize(2)] } else { 1 };
        let head_tail: (String, String) = if ctx.rng.chance(1, 2) {
            let dim = if ctx.rng.chance(3, 5) { 2 } else { 3 };
            let max_order = if dim == 2 { 32 } else { 21 };
            let order = 1 + ctx.rng.usize(max_order);
            let pexact = multi || ctx.rng.chance(1, 4);
            let (c, _) = gen_points(ctx, n, dim, pexact);
            ctx.count("scale:base:hil");
            (format!("hils {} POOL {} {} {}", dim, order, parts, n), format!("{} {}", fmt_f(&c), fmt_f(&w)))
        } else {
            let shape = ctx.rng.usize(3);
            let idx: Vec<u64> = (0..n)
                .map(|_| match shape {
                    0 => ctx.rng.below(64),
                    1 => ctx.rng.below(1 << 24),
                    _ => ctx.rng.next(),
                })
                .collect();
            ctx.count("scale:base:wq");
            (format!("wqs POOL {} {}", parts, n), format!("{} {}", join(&idx), fmt_f(&w)))
        };
        for sc in DEC_SCALES {
            ctx.count(&format!("scale:{:e}", sc));
            run_op(ctx, &format!("{} {} {}", head_tail.0.replace("POOL", "1"), hex(sc), head_tail.1));
        }
        // subnormal totals, the smallest normal on both sides, a total just below overflow
        let total: f64 = w.iter().sum();
        let mut extreme: Vec<(f64, &str)> = vec![
            (f64::from_bits(1), "5e-324"),
            (1e-310, "1e-310"),
            (f64::MIN_POSITIVE, "2^-1022"),
            (f64::MIN_POSITIVE / 2.0, "2^-1023"),
            (f64::MIN_POSITIVE * 2.0, "2^-1021"),
        ];
        if total.is_finite() && total > 0.0 {
            // 2^e with total * 2^e in [2^1023, 2^1024): finite, but (p + 1) * total overflows
            let e = 1023 - total.log2().floor() as i32;
            let sc = (2.0f64).powi(e.clamp(-1000, 1000));
            if (total * sc).is_finite() && w.iter().all(|x| (x * sc).is_finite()) {
                extreme.push((sc, "near-overflow"));
            }
        }
        for (sc, name) in extreme {
            let scaled: Vec<f64> = w.iter().map(|x| x * sc).collect();
            // any pool when every sum is exact (integer multiples of one power of two, subnormals)
            let pool = if multi && exact_weights(&scaled) { big_pool } else { 1 };
            ctx.count(&format!("special:magnitude:{}", name));
            run_op(ctx, &format!("{} {} {}", head_tail.0.replace("POOL", &pool.to_string()), hex(sc), head_tail.1));
        }
        for (sc, name) in POW2_SCALES.iter().zip(["2^-60", "2^-30", "2^30"]) {
            ctx.count(&format!("scale:{}", name));
            ctx.count(&format!("scale:pow2:pool{}", big_pool));
            run_op(ctx, &format!("{} {} {}", head_tail.0.replace("POOL", &big_pool.to_string()), hex(*sc), head_tail.1));
        }
    }
    ctx.notes.push(
        "weight-scale stream: every base input (hil / wq, n <= 300) is repeated with its f64 weights multiplied by 1e-30, 1e-20, \
         1e-18, 1e-15, 1e-10, 1e10, 1e30 (oracle, watchdog, ids vs the hook's positions) and by 2^-60, 2^-30, 2^30 (additionally: \
         positions and ids identical to the unscaled run, and exact comparison with the model's own refinement)"
            .to_string(),
    );
}

/// `v` moved by `k` units in the last place towards +infinity (`up`) or -infinity.
fn ulps(v: f64, k: u64, up: bool) -> f64 {
    if v == 0.0 {
        return if up { f64::from_bits(k) } else { -f64::from_bits(k) };
    }
    let b = v.to_bits();
    f64::from_bits(if (v > 0.0) == up { b + k } else { b - k })
}

/// Deep orders (beyond float resolution) on small sets with ulp-neighbours ON the bounding box:
/// a point exactly at the minimum (maximum) on an axis and others 1-3 ulps further in, on one
/// axis (collinear sets: the other axes are degenerate from the start) or on all (sets mirrored in
/// x and y, so that the oriented box is the axis-aligned one), on a face (extreme on x, interior
/// on y), small lattices; orders 54/55/56/60/64 in 2-D, 40/41/42 in 3-D (boxes [8, 8 + 2^-7] whose
/// cells are one float wide at depth 42); every part count 1..=n (quick: 2, 3, n-1, n and two
/// random ones), so that part boundaries fall between ulp-neighbours; input order as built,
/// reversed and shuffled. (Added after seeded change C09-r2-1.)
fn zc_box_corner_stream(ctx: &mut Ctx) {
    // fixed core (every run): 8 collinear points with an ulp-neighbour of the box minimum /
    // maximum, as built and reversed, a part boundary between the neighbours (n and n-1 parts)
    for (dim, lo, hi, orders) in [
        (2usize, -4.0f64, 4.0f64, [55u64, 64]),
        (2, -1.0, 3.0, [55, 64]),
        (2, 2.0, 10.0, [56, 64]),
        (2, 8.0, 8.0078125, [45, 64]),
        (3, 8.0, 8.0078125, [42, 41]),
        (3, -8.0, -7.9921875, [42, 41]),
    ] {
        for at_max in [false, true] {
            let nb = if at_max { ulps(hi, 1, false) } else { ulps(lo, 1, true) };
            let w = hi - lo;
            let xs = [lo, nb, hi, lo + w * 0.625, lo + w * 0.1875, lo + w * 0.5625, lo + w * 0.875, lo + w * 0.375];
            for reversed in [false, true] {
                let mut c: Vec<f64> = Vec::new();
                let it: Vec<f64> = if reversed { xs.iter().rev().copied().collect() } else { xs.to_vec() };
                for x in it {
                    c.push(x);
                    c.extend(std::iter::repeat(0.0).take(dim - 1));
                }
                for order in orders {
                    for k in [8usize, 7] {
                        ctx.count("corner:zc-box-core-line");
                        run_op(ctx, &format!("zc {} 1 {} {} 8 {}", dim, order, k, fmt_f(&c)));
                    }
                }
            }
        }
    }
    let sets = ctx.budget(16, 120);
    for _ in 0..sets {
        let kind = ctx.rng.usize(5);
        let (dim, mut pts, name): (usize, Vec<Vec<f64>>, &str) = match kind {
            0 | 1 => {
                // collinear along x; 2-D: wide boxes, 3-D (and some 2-D): [lo, lo + 2^-7]
                let dim = if kind == 0 { 2 } else { 3 };
                let (lo, hi) = if dim == 3 || ctx.rng.chance(1, 4) {
                    let lo = [8.0, -8.0, 1.0][ctx.rng.usize(3)];
                    let w = [0.0078125, 0.001953125][ctx.rng.usize(2)] * if lo == 1.0 { 0.125 } else { 1.0 };
                    (lo, lo + w)
                } else {
                    [(-4.0, 4.0), (-1.0, 3.0), (-4.0, 1.0), (2.0, 10.0)][ctx.rng.usize(4)]
                };
                let mut xs = vec![lo, hi];
                let at = ctx.rng.usize(3); // 0 = min corner, 1 = max corner, 2 = both
                if at != 1 {
                    for k in 1..=1 + ctx.rng.below(3) {
                        xs.push(ulps(lo, k, true));
                    }
                }
                if at != 0 {
                    for k in 1..=1 + ctx.rng.below(3) {
                        xs.push(ulps(hi, k, false));
                    }
                }
                let n = 8 + ctx.rng.usize(9);
                while xs.len() < n {
                    let t = ctx.rng.below(1 << 20) as f64 / (1u64 << 20) as f64;
                    xs.push(lo + (hi - lo) * t);
                }
                let yz = if ctx.rng.chance(1, 2) { 0.0 } else { lo };
                (dim, xs.into_iter().map(|x| if dim == 2 { vec![x, yz] } else { vec![x, yz, yz] }).collect(), "line")
            }
            2 | 3 => {
                // mirrored rectangle [-a, a] x [-b, b]: corner clusters (x only / x and y), face pair
                let (a, b) = [(4.0, 2.0), (4.0, 4.0), (1.0, 0.5), (6.0, 1.5)][ctx.rng.usize(4)];
                let mut quad: Vec<(f64, f64)> = vec![(a, b)];
                let k = 1 + ctx.rng.below(3);
                if kind == 2 {
                    quad.push((ulps(a, k, false), b));
                } else {
                    quad.push((ulps(a, k, false), ulps(b, 1 + ctx.rng.below(2), false)));
                }
                if ctx.rng.chance(1, 2) {
                    let y = b * (1 + ctx.rng.below(7)) as f64 / 8.0;
                    quad.push((a, y));
                    quad.push((ulps(a, 1, false), y));
                }
                while quad.len() < 4 {
                    quad.push((a * ctx.rng.below(8) as f64 / 8.0, b * ctx.rng.below(8) as f64 / 8.0));
                }
                let mut pts = Vec::new();
                for (x, y) in quad {
                    for (sx, sy) in [(1.0, 1.0), (-1.0, -1.0), (1.0, -1.0), (-1.0, 1.0)] {
                        pts.push(vec![x * sx, y * sy]);
                    }
                }
                (2, pts, if kind == 2 { "mirrored-x" } else { "mirrored-xy" })
            }
            _ => {
                // small lattice with one extra ulp-neighbour of the minimum (or maximum) corner
                let (lo, hi) = [(-4.0, 4.0), (-2.0, 6.0), (8.0, 8.0078125)][ctx.rng.usize(3)];
                let (nx, ny) = (3 + ctx.rng.usize(2), 2 + ctx.rng.usize(2));
                let mut pts = Vec::new();
                for i in 0..nx {
                    for j in 0..ny {
                        pts.push(vec![
                            lo + (hi - lo) * i as f64 / (nx - 1) as f64,
                            lo + (hi - lo) * 0.5 * j as f64 / (ny - 1) as f64,
                        ]);
                    }
                }
                let k = 1 + ctx.rng.below(2);
                if ctx.rng.chance(1, 2) {
                    pts.push(vec![ulps(lo, k, true), lo]);
                } else {
                    pts.push(vec![ulps(hi, k, false), lo + (hi - lo) * 0.5]);
                }
                (2, pts, "lattice")
            }
        };
        match ctx.rng.usize(3) {
            0 => pts.reverse(),
            1 => ctx.rng.shuffle(&mut pts),
            _ => {}
        }
        let n = pts.len();
        let c: Vec<f64> = pts.into_iter().flatten().collect();
        let orders: Vec<u64> = if dim == 2 { vec![54, 55, 56, 60, 64] } else { vec![40, 41, 42] };
        let mut part_counts: Vec<usize> = if ctx.quick() {
            vec![2, 3, n - 1, n, 1 + ctx.rng.usize(n), 1 + ctx.rng.usize(n)]
        } else {
            (1..=n).collect()
        };
        part_counts.dedup();
        for &order in &orders {
            for &k in &part_counts {
                ctx.count(&format!("corner:zc-box-{}", name));
                ctx.count(&format!("zc:order:deep:{}", if order >= 54 { "54+" } else { "13-53" }));
                run_op(ctx, &format!("zc {} 1 {} {} {} {}", dim, order, k, n, fmt_f(&c)));
            }
        }
    }
}

/// Signed zeros. Point-symmetric integer lattices (`p` and `-p`: negating `0.0` is how `-0.0`
/// arises) whose zero coordinates are at the first cut of the box, with an odd or an even number
/// of them negative; zero weights with a random subset negative. Every runner compares the result
/// with the run that has `+0.0` in their place (`negzero-dependent@…`); the model computes with
/// `+0.0`.
fn negzero_stream(ctx: &mut Ctx) {
    for _ in 0..ctx.budget(40, 600) {
        let dim = 2 + ctx.rng.usize(2);
        let half = 1 + ctx.rng.usize(20);
        let pool = *ctx.rng.pick(&POOLS);
        let mut c: Vec<f64> = Vec::new();
        for _ in 0..half {
            let q: Vec<i64> = (0..dim).map(|_| ctx.rng.range(-3, 3) * ctx.rng.range(0, 1)).collect();
            c.extend(q.iter().map(|x| *x as f64));
            c.extend(q.iter().map(|x| -(*x as f64)));
        }
        // force the parity of the number of negative zeros
        let want_odd = ctx.rng.chance(1, 2);
        let zeros: Vec<usize> = (0..c.len()).filter(|i| c[*i] == 0.0).collect();
        let neg = zeros.iter().filter(|i| c[**i].is_sign_negative()).count();
        if !zeros.is_empty() && (neg % 2 == 1) != want_odd {
            let i = zeros[ctx.rng.usize(zeros.len())];
            c[i] = -c[i];
        }
        let n = 2 * half;
        let parts = gen_parts(ctx, n);
        let mut w: Vec<f64> = (0..n).map(|_| if ctx.rng.chance(1, 2) { 0.0 } else { ctx.rng.range(1, 5) as f64 }).collect();
        for x in w.iter_mut() {
            if *x == 0.0 && ctx.rng.chance(1, 2) {
                *x = -0.0;
            }
        }
        ctx.count(&format!("special:negzero-coords:{}", if want_odd { "odd" } else { "even" }));
        match ctx.rng.usize(3) {
            0 => {
                let order = 1 + ctx.rng.usize(if dim == 2 { 32 } else { 21 });
                run_op(ctx, &format!("hil {} {} {} {} {} {} {}", dim, pool, order, parts, n, fmt_f(&c), fmt_f(&w)));
            }
            1 => {
                let order = ctx.rng.usize(13);
                run_op(ctx, &format!("zc {} {} {} {} {} {}", dim, pool, order, parts, n, fmt_f(&c)));
            }
            _ => {
                let idx: Vec<u64> = (0..n).map(|_| ctx.rng.below(40)).collect();
                run_op(ctx, &format!("wq {} {} {} {} {}", pool, parts.max(1), n, join(&idx), fmt_f(&w)));
            }
        }
    }
    // totals close to overflow made of a few huge weights (1-thread pool: the sums are rounded)
    for _ in 0..ctx.budget(12, 150) {
        let n = 3 + ctx.rng.usize(10);
        let mut w: Vec<f64> = (0..n).map(|_| [1.0, 1e300, 1e-300, 3e305][ctx.rng.usize(4)]).collect();
        w[0] = f64::MAX / 2.0;
        w[1] = 5e307;
        if ctx.rng.chance(1, 2) {
            w[2] = 2.9e307; // total * 1.01 overflows
        }
        ctx.rng.shuffle(&mut w);
        let parts = 1 + ctx.rng.usize(n + 2);
        let idx: Vec<u64> = (0..n).map(|_| ctx.rng.below(1 << 30)).collect();
        ctx.count("special:magnitude:huge-weights");
        run_op(ctx, &format!("wq 1 {} {} {} {}", parts, n, join(&idx), fmt_f(&w)));
    }
}

// ------------------------------------------------------------------ signed zeros on degenerate axes, subnormal cells

/// A zero whose sign is chosen by pattern `pat` for point `j` with abscissa `x`:
/// 0 all `+0.0`, 1 all `-0.0`, 2 alternating along the input, 3 the sign of the abscissa,
/// 4 the opposite sign, 5 random.
fn zero_of(pat: usize, j: usize, x: f64, rng: &mut Rng) -> f64 {
    let neg = match pat {
        0 => false,
        1 => true,
        2 => j % 2 == 1,
        3 => x < 0.0,
        4 => x > 0.0,
        _ => rng.chance(1, 2),
    };
    if neg {
        -0.0
    } else {
        0.0
    }
}

/// SIGNED-ZERO / DEGENERATE-AXIS stream (added after seeded change C09-r3-1: a comparison of
/// `region` replaced by the total order, which separates `-0.0` from `+0.0`). Point sets that lie
/// on a line or a plane THROUGH ZERO with coordinates of both signs, so that an axis of the
/// oriented frame is exactly degenerate at zero and the frame products give that zero either sign
/// (`0 * x` has the sign of `x`): coordinate axes and coordinate planes with every sign pattern of
/// the constant zero (all `+0.0`, all `-0.0`, alternating, following / opposing the sign of the
/// abscissa, random), lines and planes spanned by small integer vectors, sets with their mirror
/// images (negation is how `-0.0` arises), `-0.0` among the abscissae; first point positive or
/// negative, sorted, reversed, positives first, negatives first; pools 1/2/3/4/16 (which corner of
/// the box gets which zero depends on rayon's fold segments); orders 0-12 and deep; part counts
/// 2, 3, n-1, n, random. Every case gets the oracle over the hook's cells, the oracle over the
/// cells of the reference arithmetic (`ref_cells`), the exact comparison of the two, the
/// comparison with the `+0.0` run and the comparison with the model's own cells.
fn zc_signed_zero_stream(ctx: &mut Ctx) {
    let lines: [&[i64]; 4] = [
        &[3, -1, 2, -2, 1, -3, 4, -4],
        &[-3, 1, -2, 2, -1, 3, -4, 4],
        &[5, 4, 3, 2, 1, -1, -2, -3, -4, -5, -6, 6, 7, -7, 8, -8],
        &[-5, -4, -3, -2, -1, 0, 1, 2, 3, 4, 5],
    ];
    // fixed core (every run): collinear points on each coordinate axis, every zero pattern
    for dim in [2usize, 3] {
        for axis in 0..dim {
            for pat in 0..5 {
                for xs in lines {
                    let n = xs.len();
                    let mut c = Vec::new();
                    for (j, &x) in xs.iter().enumerate() {
                        for d in 0..dim {
                            c.push(if d == axis { x as f64 } else { zero_of(pat, j + d, x as f64, &mut ctx.rng) });
                        }
                    }
                    for (pool, order, parts) in [(1usize, 4u64, 3usize), (3, 12, n), (1, 1, 2), (4, 7, n - 1)] {
                        ctx.count("special:signed-zero:core-axis-line");
                        run_op(ctx, &format!("zc {} {} {} {} {} {}", dim, pool, order, parts, n, fmt_f(&c)));
                    }
                }
            }
        }
    }
    for _ in 0..ctx.budget(300, 6000) {
        let dim = 2 + ctx.rng.usize(2);
        let big = ctx.rng.chance(1, 8);
        let n = 2 + ctx.rng.usize(if big { 200 } else { 22 });
        let pat = ctx.rng.usize(6);
        let scale = [1.0, 1.0, 0.125, 1024.0, 3.0][ctx.rng.usize(5)];
        let span = [2i64, 8, 100][ctx.rng.usize(3)];
        // the spanning vectors: a coordinate axis, a coordinate plane (3-D), or small integer vectors
        let kind = ctx.rng.usize(4);
        let mut a: Vec<i64> = vec![0; dim];
        let mut b: Vec<i64> = vec![0; dim];
        let name = match kind {
            0 => {
                let ax = ctx.rng.usize(dim);
                a[ax] = 1;
                "axis-line"
            }
            1 if dim == 3 => {
                let ax = ctx.rng.usize(3);
                a[(ax + 1) % 3] = 1;
                b[(ax + 2) % 3] = 1;
                "coordinate-plane"
            }
            2 if dim == 3 => {
                while a.iter().all(|x| *x == 0) {
                    a = (0..dim).map(|_| ctx.rng.range(-2, 2)).collect();
                }
                while b.iter().all(|x| *x == 0) {
                    b = (0..dim).map(|_| ctx.rng.range(-2, 2)).collect();
                }
                "oblique-plane"
            }
            _ => {
                while a.iter().all(|x| *x == 0) {
                    a = (0..dim).map(|_| ctx.rng.range(-2, 2)).collect();
                }
                "oblique-line"
            }
        };
        let planar = b.iter().any(|x| *x != 0);
        let mirrored = ctx.rng.chance(1, 3);
        let m = if mirrored { (n + 1) / 2 } else { n };
        let mut st: Vec<(i64, i64)> = (0..m).map(|_| (ctx.rng.range(-span, span), if planar { ctx.rng.range(-span, span) } else { 0 })).collect();
        match ctx.rng.usize(6) {
            0 => st.sort(),
            1 => {
                st.sort();
                st.reverse();
            }
            2 => st.sort_by_key(|x| (x.0 < 0, x.0)), // non-negative abscissae first
            3 => st.sort_by_key(|x| (x.0 >= 0, x.0)), // negative abscissae first
            _ => {}
        }
        let mut c: Vec<f64> = Vec::new();
        let mut count = 0usize;
        for (j, (t, u)) in st.iter().enumerate() {
            let mut q: Vec<f64> = Vec::with_capacity(dim);
            for d in 0..dim {
                let v = (t * a[d] + u * b[d]) as f64 * scale;
                q.push(if v == 0.0 { zero_of(pat, j + d, *t as f64, &mut ctx.rng) } else { v });
            }
            c.extend(q.iter().copied());
            count += 1;
            if mirrored && count < n {
                c.extend(q.iter().map(|x| -*x));
                count += 1;
            }
        }
        let n = count;
        let pool = [1usize, 1, 2, 3, 4, 16][ctx.rng.usize(6)];
        let max_order = if dim == 2 { 64 } else { 42 };
        let order = match ctx.rng.usize(6) {
            0 => 1,
            1 => 2,
            2 => 13 + ctx.rng.usize(max_order - 12),
            _ => ctx.rng.usize(13),
        };
        let parts = match ctx.rng.usize(5) {
            0 => 2,
            1 => 3,
            2 => n,
            3 => (n - 1).max(1),
            _ => gen_parts(ctx, n),
        };
        ctx.count(&format!("special:signed-zero:{}{}", name, if mirrored { ":mirrored" } else { "" }));
        ctx.count(&format!("special:signed-zero:pattern{}", pat));
        run_op(ctx, &format!("zc {} {} {} {} {} {}", dim, pool, order, parts, n, fmt_f(&c)));
        if ctx.rng.chance(1, 4) {
            // the same set through HilbertCurve (unit or small integer weights): oracle and the `+0.0` run
            let horder = 1 + ctx.rng.usize(if dim == 2 { 32 } else { 21 });
            let ones = ctx.rng.chance(1, 2);
            let w: Vec<f64> = (0..n).map(|_| if ones { 1.0 } else { ctx.rng.range(1, 4) as f64 }).collect();
            ctx.count("special:signed-zero:hil");
            run_op(ctx, &format!("hil {} {} {} {} {} {} {}", dim, pool, horder, parts, n, fmt_f(&c), fmt_f(&w)));
        }
    }
    ctx.notes.push(
        "signed-zero stream: point sets on lines / planes through zero with coordinates of both signs and every sign pattern of the \
         constant zero (degenerate frame axis at zero, corners and points with zeros of either sign), pools 1/2/3/4/16, orders 0-12 and deep: \
         oracle over the hook's cells and over the reference arithmetic's cells, exact cell comparison, `+0.0` run, model's own cells"
            .to_string(),
    );
}

/// `k` units of the smallest subnormal (`k * 5e-324`, exact), of either sign.
fn sub(k: i64) -> f64 {
    if k < 0 {
        -f64::from_bits(k.unsigned_abs())
    } else {
        f64::from_bits(k as u64)
    }
}

/// SUBNORMAL stream (added after seeded change C09-r3-2: the cell centre computed as
/// `min / 2 + max / 2`, which rounds twice on subnormal corners). Coordinates that are small
/// multiples of 5e-324 (cells whose corners are neighbouring subnormals: the centre is not
/// representable and `(min + max) / 2` rounds to even), of both signs, up to 2^20 units, scaled by
/// powers of two, and around the smallest normal; on a coordinate axis (the other coordinates `0.0`,
/// `-0.0` or one subnormal constant), as independent coordinates, on the diagonals. The inertia
/// matrix of such sets underflows to zero; whatever frame results, the cells must be those of the
/// reference arithmetic on the frame coordinates. Exhaustive part: every 3-element (thorough: and
/// 4-element) subset of {0..12} x 5e-324 on each axis, two input orders, orders 12 and 30 (thorough:
/// also 3 and the maximum), one part per point.
fn zc_subnormal_stream(ctx: &mut Ctx) {
    let quick = ctx.quick();
    let sizes: &[u32] = if quick { &[3] } else { &[3, 4] };
    let placements: &[(usize, usize)] = if quick { &[(2, 0), (2, 1)] } else { &[(2, 0), (2, 1), (3, 2), (3, 0)] };
    let mut subsets = 0usize;
    for mask in 0u32..(1 << 13) {
        if !sizes.contains(&mask.count_ones()) {
            continue;
        }
        subsets += 1;
        let asc: Vec<i64> = (0..13).filter(|k| (mask >> k) & 1 == 1).collect();
        let n = asc.len();
        let desc: Vec<i64> = asc.iter().rev().copied().collect();
        let mut rot = asc.clone();
        rot.rotate_left(1);
        // largest first then ascending: the order of the seed's own witness {10, 3, 2} reversed in part
        let mut big_first = desc.clone();
        big_first[1..].reverse();
        for ks in [&desc, &rot, &big_first] {
            for &(dim, axis) in placements {
                let mut c = Vec::new();
                for &k in ks.iter() {
                    for d in 0..dim {
                        c.push(if d == axis { sub(k) } else { 0.0 });
                    }
                }
                let orders: &[u64] = if quick { &[12, 30] } else if dim == 2 { &[3, 12, 30, 64] } else { &[3, 12, 30, 42] };
                for &order in orders {
                    ctx.count("special:subnormal:exhaustive-subsets");
                    run_op(ctx, &format!("zc {} 1 {} {} {} {}", dim, order, n, n, fmt_f(&c)));
                }
            }
        }
    }
    ctx.notes.push(format!(
        "exhaustive sub-space (ZCurve subnormal cells): every subset of {{0..12}} x 5e-324 with {:?} elements ({} subsets) on each of {} axis placements, 3 input orders, one part per point",
        sizes,
        subsets,
        placements.len()
    ));
    for _ in 0..ctx.budget(400, 6000) {
        let dim = 2 + ctx.rng.usize(2);
        let n = 2 + ctx.rng.usize(18);
        let mag = ctx.rng.usize(6);
        let shift = 1 + ctx.rng.usize(50) as i32;
        let val = |rng: &mut Rng| -> f64 {
            match mag {
                0 => sub(rng.range(-12, 12)),
                1 => sub(rng.range(0, 64)),
                2 => sub(rng.range(-(1 << 20), 1 << 20)),
                3 => sub(rng.range(-40, 40)) * (2.0f64).powi(shift),
                4 => {
                    // around the smallest normal 2^-1022 (bits 0x0010_0000_0000_0000)
                    let v = f64::from_bits((0x0010_0000_0000_0000i64 + rng.range(-30, 30)) as u64);
                    if rng.chance(1, 3) {
                        -v
                    } else {
                        v
                    }
                }
                _ => sub(rng.range(2, 9)),
            }
        };
        let shape = ctx.rng.usize(4);
        let mut c: Vec<f64> = Vec::with_capacity(n * dim);
        let name = match shape {
            0 | 1 => {
                let axis = ctx.rng.usize(dim);
                let other = match ctx.rng.usize(4) {
                    0 => -0.0,
                    1 => val(&mut ctx.rng),
                    _ => 0.0,
                };
                for _ in 0..n {
                    let v = val(&mut ctx.rng);
                    for d in 0..dim {
                        c.push(if d == axis { v } else { other });
                    }
                }
                "axis-line"
            }
            2 => {
                for _ in 0..n * dim {
                    c.push(val(&mut ctx.rng));
                }
                "cloud"
            }
            _ => {
                let signs: Vec<f64> = (0..dim).map(|d| if d > 0 && ctx.rng.chance(1, 2) { -1.0 } else { 1.0 }).collect();
                for _ in 0..n {
                    let v = val(&mut ctx.rng);
                    for d in 0..dim {
                        c.push(v * signs[d]);
                    }
                }
                "diagonal"
            }
        };
        let pool = [1usize, 1, 3, 4][ctx.rng.usize(4)];
        let max_order = if dim == 2 { 64 } else { 42 };
        let order = match ctx.rng.usize(4) {
            0 => 12,
            1 => 30,
            2 => max_order,
            _ => 1 + ctx.rng.usize(max_order),
        };
        let parts = match ctx.rng.usize(5) {
            0 | 1 => n,
            2 => (n - 1).max(1),
            3 => 2 + ctx.rng.usize(2),
            _ => gen_parts(ctx, n),
        };
        ctx.count(&format!("special:subnormal:{}:mag{}", name, mag));
        run_op(ctx, &format!("zc {} {} {} {} {} {}", dim, pool, order, parts, n, fmt_f(&c)));
    }
}

// ------------------------------------------------------------------ reuse sequences of one algorithm value

enum RsHook {
    Cells(Vec<Vec<u8>>, Vec<usize>),
    Idx(Vec<u64>),
}

/// Reuse sequence (added after seeded change C09-r3-3: `ZCurve::partition` stored a part count
/// capped by the number of points in the algorithm VALUE; every single call was unchanged, a
/// value that had once seen fewer points than parts partitioned every later set into too few
/// parts). The part count the calls are judged against is the one the value was BUILT with.
fn run_rs(ctx: &mut Ctx, t: &mut Toks) -> Option<()> {
    let algo = t.0.next()?.to_string();
    let dim = t.usize()?;
    let pool = t.usize()?;
    let order = t.u64()?;
    let parts = t.usize()?;
    let seed = t.u64()?;
    let m = t.usize()?;
    if m == 0 || m > 8 {
        return None;
    }
    let sizes = t.many(m, |t| t.usize())?;
    let hil = match algo.as_str() {
        "h" => true,
        "z" => false,
        _ => return None,
    };
    let max_order = match (hil, dim) {
        (true, 2) => 32,
        (true, _) => 21,
        (false, 2) => 64,
        (false, _) => 42,
    };
    if !(dim == 2 || dim == 3) || pool == 0 || pool > 64 || parts == 0 || parts > (1 << 20) || order > max_order || sizes.iter().any(|n| *n > (1 << 16)) || !t.at_end() {
        return None;
    }
    let name = if hil { "HilbertCurve" } else { "ZCurve" };
    let op = format!("rs {} {} {} {} {} {} {} {}", algo, dim, pool, order, parts, seed, m, join(&sizes));
    // exact-sum family 0 (point-symmetric integer sets): the same frame on any pool
    let sets: Vec<(Vec<f64>, Vec<f64>)> = sizes
        .iter()
        .enumerate()
        .map(|(i, &n)| (gen_family(dim, n, 0, seed + i as u64), gen_int_weights(n, 1, seed + i as u64)))
        .collect();
    let sets2 = sets.clone();
    type Step = (Option<Vec<usize>>, Option<Vec<usize>>, Option<RsHook>);
    let r = catch_timeout(2 * WATCHDOG_S, move || {
        with_pool(pool, || {
            // THE value of the sequence (one of the two is used)
            let mut zc = coupe::ZCurve { part_count: parts, order: order as u32 };
            let mut hc = coupe::HilbertCurve { part_count: parts, order: order as u32 };
            let mut steps: Vec<Step> = Vec::new();
            for (c, w) in &sets2 {
                let n = w.len();
                let call = |zc: &mut coupe::ZCurve, hc: &mut coupe::HilbertCurve| -> Option<Vec<usize>> {
                    std::panic::catch_unwind(std::panic::AssertUnwindSafe(|| {
                        let mut ids = vec![UNWRITTEN; n];
                        let ok = match (hil, dim) {
                            (true, 2) => hc.partition(&mut ids, (&pts2(c)[..], w.clone())).is_ok(),
                            (true, _) => hc.partition(&mut ids, (&pts3(c)[..], w.clone())).is_ok(),
                            (false, 2) => zc.partition(&mut ids, &pts2(c)[..]).is_ok(),
                            (false, _) => zc.partition(&mut ids, &pts3(c)[..]).is_ok(),
                        };
                        if ok {
                            Some(ids)
                        } else {
                            None
                        }
                    }))
                    .ok()
                    .flatten()
                };
                let reused = call(&mut zc, &mut hc);
                let mut fz = coupe::ZCurve { part_count: parts, order: order as u32 };
                let mut fh = coupe::HilbertCurve { part_count: parts, order: order as u32 };
                let fresh = call(&mut fz, &mut fh);
                let hook = std::panic::catch_unwind(std::panic::AssertUnwindSafe(|| {
                    if n == 0 {
                        None
                    } else {
                        Some(match (hil, dim) {
                            (true, 2) => RsHook::Idx(coupe::verif::hilbert::indices_2d(&pts2(c), order as usize)),
                            (true, _) => RsHook::Idx(coupe::verif::hilbert::indices_3d(&pts3(c), order as usize)),
                            (false, 2) => RsHook::Cells(
                                coupe::verif::z_curve::codes::<2>(&pts2(c), order as u32),
                                coupe::verif::z_curve::permutation::<2>(&pts2(c), order as u32),
                            ),
                            (false, _) => RsHook::Cells(
                                coupe::verif::z_curve::codes::<3>(&pts3(c), order as u32),
                                coupe::verif::z_curve::permutation::<3>(&pts3(c), order as u32),
                            ),
                        })
                    }
                }))
                .ok()
                .flatten();
                steps.push((reused, fresh, hook));
            }
            steps
        })
    });
    ctx.count(&format!("reuse-seq:{}:pool{}", name, pool));
    if let Some((out, v)) = caught_out(&r) {
        finish(ctx, op, out, false, v);
        return Some(());
    }
    let Caught::Ok(steps) = r else { unreachable!() };
    let mut v: Option<(String, String)> = None;
    for (i, (reused, fresh, hook)) in steps.iter().enumerate() {
        let n = sizes[i];
        let seen = &sizes[..i];
        if i > 0 {
            ctx.count("reuse-seq:later-call");
            if n >= parts && seen.iter().any(|s| *s < parts) {
                ctx.count("reuse-seq:later-call:n>=parts-after-fewer-points-than-parts");
            }
            if seen.contains(&0) {
                ctx.count("reuse-seq:later-call:after-empty-set");
            }
            if seen.iter().any(|s| *s > n) {
                ctx.count("reuse-seq:later-call:after-larger-set");
            }
        }
        match (reused, fresh) {
            (Some(a), Some(b)) => {
                // the property on the reused value's output, for the part count the value was built with
                v = match hook {
                    Some(RsHook::Cells(codes, perm)) if codes.len() == n => zcurve_oracle(codes, perm, a, parts),
                    Some(RsHook::Idx(idx)) if idx.len() == n => hilbert_oracle(idx, a, parts),
                    _ => None,
                }
                .map(|(s, w)| (s, format!("call {} of the sequence (n = {}, built with part_count = {}, earlier sizes {:?}): {}", i + 1, n, parts, seen, w)));
                if v.is_none() && a != b {
                    let distinct = |x: &Vec<usize>| {
                        let mut d = x.clone();
                        d.sort_unstable();
                        d.dedup();
                        d.len()
                    };
                    v = Some((
                        format!("value-state-dependent@{}", name),
                        format!(
                            "call {} of the sequence (n = {}, built with part_count = {}) on a value already used on sets of {:?} points: {} of {} ids differ from a fresh value's ({} non-empty parts, fresh {})",
                            i + 1,
                            n,
                            parts,
                            seen,
                            a.iter().zip(b.iter()).filter(|(x, y)| x != y).count(),
                            n,
                            distinct(a),
                            distinct(b)
                        ),
                    ));
                }
            }
            (None, None) => ctx.count("reuse-seq:call-fails-on-both"),
            (x, _) => {
                v = Some((
                    format!("value-state-dependent@{}", name),
                    format!(
                        "call {} of the sequence (n = {}, part_count = {}, earlier sizes {:?}): the reused value {}, a fresh value {}",
                        i + 1,
                        n,
                        parts,
                        seen,
                        if x.is_some() { "answers" } else { "fails" },
                        if x.is_some() { "fails" } else { "answers" }
                    ),
                ));
            }
        }
        if v.is_some() {
            break;
        }
    }
    finish(ctx, op, format!("ok {} calls", m), true, v);
    // the later calls as ordinary cases: full oracle and exact comparison with the model
    for (i, &n) in sizes.iter().enumerate().skip(1).take(3) {
        if n == 0 {
            continue;
        }
        let line = if hil {
            format!("hilg {} {} {} {} {} 0 0 1 {} 0", dim, pool, order, parts, n, seed + i as u64)
        } else {
            format!("zcg {} {} {} {} {} 0 0 {} 0", dim, pool, order, parts, n, seed + i as u64)
        };
        run_op(ctx, &line);
    }
    Some(())
}

/// REUSE-SEQUENCE stream: one value across calls with different input sizes — first fewer points
/// than parts / an empty set / one point, then larger sets (and larger, smaller, larger again).
fn reuse_sequence_stream(ctx: &mut Ctx) {
    // fixed core (every run)
    for algo in ["z", "h"] {
        for dim in [2usize, 3] {
            for (k, pool) in [(2usize, 1usize), (3, 4), (5, 1), (64, 4)] {
                let seqs: Vec<Vec<usize>> = vec![
                    vec![k - 1, 4 * k],
                    vec![0, 3 * k + 1],
                    vec![1, 2 * k],
                    vec![2, k, 5 * k + 3],
                    vec![k + 5, 1, k + 5],
                    vec![0, 0, k],
                    vec![3 * k, k / 2, 3 * k + 2, 7 * k],
                ];
                for sq in seqs {
                    let seed = ctx.rng.below(1 << 40);
                    let order = if algo == "z" { 6 } else { 9 };
                    ctx.count("reuse-seq:core");
                    run_op(ctx, &format!("rs {} {} {} {} {} {} {} {}", algo, dim, pool, order, k, seed, sq.len(), join(&sq)));
                }
            }
        }
    }
    for _ in 0..ctx.budget(80, 1200) {
        let hil = ctx.rng.chance(1, 2);
        let dim = 2 + ctx.rng.usize(2);
        let pool = [1usize, 1, 2, 3, 4, 16][ctx.rng.usize(6)];
        let parts = match ctx.rng.usize(8) {
            0 => 2,
            1 => 3,
            2 => 4,
            3 => 7,
            4 => 16,
            5 => 64,
            6 => 257,
            _ => 2 + ctx.rng.usize(39),
        };
        let m = 2 + ctx.rng.usize(4);
        let big = if ctx.quick() { 1500 } else { 6000 };
        let mut sizes: Vec<usize> = (0..m)
            .map(|_| match ctx.rng.usize(9) {
                0 => 0,
                1 => 1,
                2 => 2,
                3 => parts - 1,
                4 => parts,
                5 => parts + 1,
                6 => ctx.rng.usize(parts),
                7 => parts + ctx.rng.usize(9 * parts),
                _ => parts + ctx.rng.usize(big),
            })
            .collect();
        // mostly: a small set somewhere before a set with at least one point per part
        if ctx.rng.chance(3, 4) {
            let last = m - 1;
            if sizes[last] < parts {
                sizes[last] = parts + ctx.rng.usize(5 * parts);
            }
            if !sizes[..last].iter().any(|s| *s < parts) {
                let j = ctx.rng.usize(last);
                sizes[j] = ctx.rng.usize(parts);
            }
        }
        let order = if hil { 1 + ctx.rng.usize(if dim == 2 { 32 } else { 21 }) } else { ctx.rng.usize(if dim == 2 { 10 } else { 7 }) };
        let seed = ctx.rng.below(1 << 40);
        run_op(ctx, &format!("rs {} {} {} {} {} {} {} {}", if hil { "h" } else { "z" }, dim, pool, order, parts, seed, m, join(&sizes)));
    }
    ctx.notes.push(
        "reuse-sequence stream: ONE ZCurve / HilbertCurve value used on 2-5 generated point sets of different sizes (0, 1, 2, parts-1, parts, \
         parts+1, below / above the part count, up to thousands), each call judged by the oracle for the part count the value was built with \
         and required to equal a fresh value's result on the same input"
            .to_string(),
    );
}

// ------------------------------------------------------------------ calling context, process state

#[derive(Clone)]
struct CxCase {
    hil: bool,
    dim: usize,
    order: u64,
    parts: usize,
    n: usize,
    family: usize,
    layout: usize,
    wmode: usize,
    seed: u64,
    coords: Vec<f64>,
    ws: Vec<f64>,
}

impl CxCase {
    /// the ordinary op line of this case (same generated input)
    fn op(&self, pool: usize) -> String {
        if self.hil {
            format!("hilg {} {} {} {} {} {} {} {} {} 0", self.dim, pool, self.order, self.parts, self.n, self.family, self.layout, self.wmode, self.seed)
        } else {
            format!("zcg {} {} {} {} {} {} {} {} 0", self.dim, pool, self.order, self.parts, self.n, self.family, self.layout, self.seed)
        }
    }
    /// one call of the public API in the CURRENT rayon context
    fn call(&self) -> Vec<usize> {
        let mut ids = vec![UNWRITTEN; self.n];
        if self.hil {
            let mut alg = coupe::HilbertCurve { part_count: self.parts, order: self.order as u32 };
            if self.dim == 2 {
                alg.partition(&mut ids, (&pts2(&self.coords)[..], self.ws.clone())).unwrap();
            } else {
                alg.partition(&mut ids, (&pts3(&self.coords)[..], self.ws.clone())).unwrap();
            }
        } else {
            let mut alg = coupe::ZCurve { part_count: self.parts, order: self.order as u32 };
            if self.dim == 2 {
                alg.partition(&mut ids, &pts2(&self.coords)[..]).unwrap();
            } else {
                alg.partition(&mut ids, &pts3(&self.coords)[..]).unwrap();
            }
        }
        ids
    }
    /// the same Hilbert call with every container type `W: AsRef<[f64]>` that is cheap to try
    fn call_types(&self) -> Vec<(&'static str, Vec<usize>)> {
        let mut out = Vec::new();
        if !self.hil {
            return out;
        }
        let w = &self.ws;
        macro_rules! go {
            ($name:expr, $w:expr) => {{
                let mut ids = vec![UNWRITTEN; self.n];
                let mut alg = coupe::HilbertCurve { part_count: self.parts, order: self.order as u32 };
                if self.dim == 2 {
                    alg.partition(&mut ids, (&pts2(&self.coords)[..], $w)).unwrap();
                } else {
                    alg.partition(&mut ids, (&pts3(&self.coords)[..], $w)).unwrap();
                }
                out.push(($name, ids));
            }};
        }
        go!("&Vec<f64>", w);
        go!("&[f64]", &w[..]);
        go!("Box<[f64]>", w.clone().into_boxed_slice());
        go!("Arc<[f64]>", std::sync::Arc::<[f64]>::from(w.clone()));
        go!("Cow<[f64]>", std::borrow::Cow::Borrowed(&w[..]));
        go!("&mut Vec<f64>", &mut w.clone());
        // points: boxed slice and array-backed instead of Vec
        if self.dim == 2 {
            let p: Box<[Point2D]> = pts2(&self.coords).into_boxed_slice();
            let mut ids = vec![UNWRITTEN; self.n];
            coupe::HilbertCurve { part_count: self.parts, order: self.order as u32 }.partition(&mut ids, (&p[..], w.clone())).unwrap();
            out.push(("Box<[Point2D]>", ids));
        }
        out
    }
}

fn cx_cases(count: usize, seed: u64, big: bool) -> Vec<CxCase> {
    let mut rng = Rng::new(seed ^ 0xC0_17E7);
    (0..count)
        .map(|_| {
            let hil = rng.chance(1, 2);
            let dim = 2 + rng.usize(2);
            let n = if big { 1500 + rng.usize(3000) } else { 2 + rng.usize(600) };
            let parts = [2, 3, 64, 1 + rng.usize(n), n + 3][rng.usize(5)];
            let order = if hil { 1 + rng.usize(if dim == 2 { 32 } else { 21 }) } else { rng.usize(7) } as u64;
            // exact-sum families only (any pool gives the same box), layouts that need no hook
            let (family, layout, wmode, cseed) = (rng.usize(2), rng.usize(5), rng.usize(6), rng.below(1 << 40));
            let coords = apply_layout(dim, gen_family(dim, n, family, cseed), layout, cseed, |_| None);
            let ws = gen_int_weights(n, wmode, cseed);
            CxCase { hil, dim, order, parts, n, family, layout, wmode, seed: cseed, coords, ws }
        })
        .collect()
}

fn run_cx(ctx: &mut Ctx, t: &mut Toks) -> Option<()> {
    use coupe::rayon::prelude::*;
    let kind = t.0.next()?.to_string();
    let pool = t.usize()?;
    let count = t.usize()?;
    let seed = t.u64()?;
    if !t.at_end() || pool == 0 || pool > 64 || count == 0 || count > 64 || !["global", "task", "many", "types"].contains(&kind.as_str()) {
        return None;
    }
    let op = format!("cx {} {} {} {}", kind, pool, count, seed);
    let cases = cx_cases(count, seed, kind == "many");
    let (c1, k1) = (cases.clone(), kind.clone());
    // reference: the calls one after the other inside `pool.install`; then the same calls in context
    let r = catch_timeout(2 * WATCHDOG_S, move || {
        let reference: Vec<Vec<usize>> = with_pool(pool, || c1.iter().map(|c| c.call()).collect());
        let mut got: Vec<(String, usize, Vec<usize>)> = Vec::new();
        match k1.as_str() {
            "global" => {
                // this watchdog thread belongs to no pool: rayon uses the global one
                for (i, c) in c1.iter().enumerate() {
                    got.push(("global-pool".into(), i, c.call()));
                }
            }
            "task" => {
                let (a, b) = with_pool(pool, || {
                    let mut spawned: Vec<Vec<usize>> = Vec::new();
                    coupe::rayon::scope(|s| s.spawn(|_| spawned = c1.iter().map(|c| c.call()).collect()));
                    let h = c1.len() / 2;
                    let (x, y): (Vec<Vec<usize>>, Vec<Vec<usize>>) =
                        coupe::rayon::join(|| c1[..h].iter().map(|c| c.call()).collect(), || c1[h..].iter().map(|c| c.call()).collect());
                    (spawned, x.into_iter().chain(y).collect::<Vec<_>>())
                });
                for (i, ids) in a.into_iter().enumerate() {
                    got.push(("scope-spawn".into(), i, ids));
                }
                for (i, ids) in b.into_iter().enumerate() {
                    got.push(("join".into(), i, ids));
                }
            }
            "many" => {
                let all: Vec<Vec<usize>> = with_pool(pool, || c1.par_iter().map(|c| c.call()).collect());
                for (i, ids) in all.into_iter().enumerate() {
                    got.push(("concurrent".into(), i, ids));
                }
            }
            _ => {
                for (i, c) in c1.iter().enumerate() {
                    for (name, ids) in with_pool(pool, || c.call_types()) {
                        got.push((name.to_string(), i, ids));
                    }
                }
            }
        }
        (reference, got)
    });
    let class = if kind == "types" { "plumbing" } else { "context" };
    ctx.count(&format!("{}:{}:pool{}", class, kind, pool));
    if let Some((out, v)) = caught_out(&r) {
        finish(ctx, op, out, false, v);
        return Some(());
    }
    let Caught::Ok((reference, got)) = r else { unreachable!() };
    let mut v = None;
    for (name, i, ids) in &got {
        ctx.count(&format!("{}:{}", class, name));
        if *ids != reference[*i] {
            let algo = if cases[*i].hil { "HilbertCurve" } else { "ZCurve" };
            let sig = if kind == "types" { format!("input-type-dependent@{}", algo) } else { format!("context-dependent@{}", algo) };
            v = Some((
                sig,
                format!(
                    "{}: {} of {} ids differ from the sequential call in pool.install({}) on `{}`",
                    name,
                    ids.iter().zip(&reference[*i]).filter(|(a, b)| a != b).count(),
                    ids.len(),
                    pool,
                    cases[*i].op(pool)
                ),
            ));
            break;
        }
    }
    finish(ctx, op, format!("ok {} calls", got.len()), true, v);
    // the same inputs as ordinary cases: full oracle and exact comparison with the model
    for c in cases.iter().take(4) {
        let line = c.op(pool);
        run_op(ctx, &line);
    }
    Some(())
}

static SEQ_COUNTER: std::sync::atomic::AtomicUsize = std::sync::atomic::AtomicUsize::new(0);

fn run_seq(ctx: &mut Ctx, op: &str) -> Option<()> {
    let subs: Vec<String> = op
        .split('|')
        .skip(1)
        .map(|x| x.split("=>").next().unwrap_or("").split_whitespace().collect::<Vec<_>>().join(" "))
        .filter(|x| !x.is_empty())
        .collect();
    if subs.is_empty() || subs.len() > 8 || subs.iter().any(|x| x.starts_with("seq") || x.starts_with("cx")) {
        return None;
    }
    let base = format!("seq | {}", subs.join(" | "));
    // child process: the sub-ops are the first calls it ever makes
    let k = SEQ_COUNTER.fetch_add(1, std::sync::atomic::Ordering::Relaxed);
    let dir = std::env::temp_dir().join(format!("c09-seq-{}-{}", std::process::id(), k));
    let _ = std::fs::create_dir_all(&dir);
    let ops_file = dir.join("ops.txt");
    let text: String = subs.iter().map(|x| format!("C09 {}\n", x)).collect();
    let child_out: Result<Vec<String>, String> = (|| {
        std::fs::write(&ops_file, text).map_err(|e| e.to_string())?;
        // the SAME binary as this process: `/proc/self/exe` stays executable when a concurrent build has
        // replaced (unlinked) the file `current_exe()` names, which would otherwise fail with ENOENT
        let proc_exe = std::path::PathBuf::from("/proc/self/exe");
        let exe = if proc_exe.exists() { proc_exe } else { std::env::current_exe().map_err(|e| e.to_string())? };
        let st = std::process::Command::new(exe)
            .args(["replay", "C09", "--ops"])
            .arg(&ops_file)
            .arg("--out")
            .arg(&dir)
            .stdout(std::process::Stdio::null())
            .stderr(std::process::Stdio::null())
            .status()
            .map_err(|e| e.to_string())?;
        if !st.success() {
            return Err(format!("child exited with {:?}", st.code()));
        }
        let out = std::fs::read_to_string(dir.join("impl.txt")).map_err(|e| e.to_string())?;
        Ok(out.lines().map(|l| l.to_string()).collect())
    })();
    let _ = std::fs::remove_dir_all(&dir);
    // this (warm) process: ordinary runs of the same ops (recorded, compared with the model)
    let mut here: Vec<String> = Vec::new();
    for x in &subs {
        let before = ctx.impl_out.len();
        run_op(ctx, x);
        here.push(ctx.impl_out.get(before).cloned().unwrap_or_default());
    }
    ctx.count("context:first-call-sequence");
    let v = match child_out {
        Err(e) => Some(("seq-child-failed".to_string(), e)),
        Ok(lines) => {
            let mut v = None;
            if lines.len() != here.len() {
                v = Some(("seq-child-failed".to_string(), format!("child wrote {} lines for {} ops", lines.len(), here.len())));
            } else {
                for (i, (a, b)) in lines.iter().zip(&here).enumerate() {
                    if a != b {
                        let algo = if subs[i].starts_with("zc") { "ZCurve" } else { "HilbertCurve" };
                        v = Some((
                            format!("process-state-dependent@{}", algo),
                            format!("op {} of the sequence (`{}…`): a fresh process answers `{}…`, this process `{}…`", i + 1, &subs[i][..subs[i].len().min(40)], &a[..a.len().min(80)], &b[..b.len().min(80)]),
                        ));
                        break;
                    }
                }
            }
            v
        }
    };
    finish(ctx, base, format!("ok {} ops", subs.len()), true, v);
    Some(())
}

fn context_stream(ctx: &mut Ctx) {
    // (a) global pool, (c) inside a rayon task, (d) many calls at once, input types
    for _ in 0..ctx.budget(1, 6) {
        let seed = ctx.rng.below(1 << 40);
        run_op(ctx, &format!("cx global 1 6 {}", seed));
        for pool in [4usize, 16] {
            let seed = ctx.rng.below(1 << 40);
            run_op(ctx, &format!("cx task {} 6 {}", pool, seed));
            let seed = ctx.rng.below(1 << 40);
            let count = 8 + ctx.rng.usize(25);
            run_op(ctx, &format!("cx many {} {} {}", pool, count, seed));
        }
        let seed = ctx.rng.below(1 << 40);
        run_op(ctx, &format!("cx types 4 6 {}", seed));
    }
    // first-call sequences across the instantiations (3-D then 2-D and the converse, one
    // algorithm then the other), each in a fresh child process
    let deep2 = |ctx: &mut Ctx, order: u64| {
        // 2-D cluster that separates only around depth 57 (a cap at the 3-D maximum 42 would merge it)
        let unit = (2.0f64).powi(-54);
        let mut c = vec![0.0, 0.0, 8.0, 8.0];
        for _ in 0..6 {
            c.push(1.0 + unit * ctx.rng.below(64) as f64);
            c.push(1.0 + unit * 3.0 * ctx.rng.below(64) as f64);
        }
        format!("zc 2 1 {} {} 8 {}", order, [2usize, 3, 8][ctx.rng.usize(3)], fmt_f(&c))
    };
    let small = |ctx: &mut Ctx, algo: &str, dim: usize, order: u64| {
        let n = 6 + ctx.rng.usize(10);
        let (c, _) = gen_points(ctx, n, dim, true);
        let parts = 2 + ctx.rng.usize(4);
        if algo == "zc" {
            format!("zc {} 1 {} {} {} {}", dim, order, parts, n, fmt_f(&c))
        } else {
            let (w, _) = gen_weights(ctx, n, true);
            format!("hil {} 1 {} {} {} {} {}", dim, order, parts, n, fmt_f(&c), fmt_f(&w))
        }
    };
    for _ in 0..ctx.budget(1, 4) {
        let (a, b) = (small(ctx, "zc", 3, 5), deep2(ctx, 60));
        run_op(ctx, &format!("seq | {} | {}", a, b));
        let (a, b) = (deep2(ctx, 60), small(ctx, "zc", 3, 5));
        run_op(ctx, &format!("seq | {} | {}", a, b));
        let (a, b) = (small(ctx, "zc", 3, 42), deep2(ctx, 64));
        run_op(ctx, &format!("seq | {} | {}", a, b));
        let (a, b) = (deep2(ctx, 64), small(ctx, "zc", 3, 42));
        run_op(ctx, &format!("seq | {} | {}", a, b));
        let (a, b) = (small(ctx, "hil", 3, 21), small(ctx, "hil", 2, 32));
        run_op(ctx, &format!("seq | {} | {}", a, b));
        let (a, b) = (small(ctx, "hil", 2, 32), small(ctx, "hil", 3, 21));
        run_op(ctx, &format!("seq | {} | {}", a, b));
        let (a, b, c) = (small(ctx, "zc", 2, 12), small(ctx, "hil", 2, 12), small(ctx, "zc", 3, 12));
        run_op(ctx, &format!("seq | {} | {} | {}", a, b, c));
        let (a, b, c) = (small(ctx, "hil", 3, 9), small(ctx, "zc", 3, 9), small(ctx, "hil", 2, 9));
        run_op(ctx, &format!("seq | {} | {} | {}", a, b, c));
    }
}
