//! C10 — Grid::rcb yields balanced boxes and terminates for any thread count.
//!
//! ops (`<T>` = rayon pool size, `<mode>` = `i` for `i64` weights, `f` for the same
//! integers as `f64` weights):
//!   `rcb2 <T> <mode> <w> <h> <iter> <plen> <n> <w_0> … <w_{n-1}>`      → `ids <id…>` (`plen` entries)
//!   `rcb3 <T> <mode> <w> <h> <d> <iter> <plen> <n> <w_0> …`            → `ids <id…>`
//!   `med <T> <mode> <total> <n> <w_0> …`                               → `med <position> <left_weight>`
//!   `reuse2 <T> <mode> <w> <h> <iterA> <iterB> <n> <a_0> … <a_{n-1}> <b_0> … <b_{n-1}>` (and `reuse3 … <w> <h> <d> …`)
//!        → `ids <id…>`: the partition buffer after `rcb(A, iterA)` followed by `rcb(B, iterB)` INTO THE
//!        SAME BUFFER; must equal the result of `rcb(B, iterB)` on a fresh buffer (no dependence on history)
//!   `pos2 <w> <h> <i>` → `pos x y`      `idx2 <w> <h> <x> <y>` → `idx i`      `len2 <w> <h>` → `len n`
//!   `pos3 <w> <h> <d> <i>` → `pos x y z` `idx3 <w> <h> <d> <x> <y> <z>` → `idx i` `len3 <w> <h> <d>` → `len n`
//!   `rcbs2 <T> <e> <w> <h> <iter> <n> <tok…>` / `rcbs3 …`: `f64` weights `k * 2^e` (tok = integer `k`, or `-0` for
//!        the weight -0.0) → `ids <id…>`; also compared with the +0.0 variant and, in the normal range, with `e = 0`
//!   `meds <T> <e> <total_k> <n> <tok…>` → `med <position> <left_weight / 2^e>` (`weighted_median_f64`)
//!   `rcbt2 <T> <type> <w> <h> <iter> <n> <w_0> …` / `rcbt3 …`: the same integers as `&[type]`
//!        (i32 u32 u64 usize u8 i16 u16 isize f32 i64arr f64box) → `ids <id…>`; compared with the `i64` / `f64` call
//!   `ctx2 <kind> <T> <mode> <w> <h> <iter> <copies> <n> <w_0> …` / `ctx3 …`: calling context, kind = `global`
//!        (global pool, built with T threads), `join` / `scope` (from inside a rayon task of a T-pool), `many`
//!        (`copies` concurrent calls on rotations of the weights, each compared with its sequential result) → `ids <id…>`
//! other outcomes: `panic file:line: message`, `hang` (watchdog), `bad-op`.
//!
//! Oracle (from the ids and the weights alone): the ids describe a recursive bisection
//! into axis-aligned boxes (bit `iter-1-L` of the id is a step function of the level's
//! coordinate inside the level-`L` box), every id is below `2^iter`, and every cut is
//! balanced within 1 % of half of the box's weight (plus one unit for integer weights)
//! or adjacent to the slab that holds the half-weight mark.

use crate::common::*;
use coupe::rayon::ThreadPool;
use std::collections::BTreeMap;
use std::num::NonZeroUsize;
use std::sync::{Arc, Mutex};

const THREADS: [usize; 6] = [1, 2, 3, 4, 8, 16];
const WATCHDOG_SECS: u64 = 60;
/// generation stops after this many watchdog timeouts (each costs `WATCHDOG_SECS`
/// and leaves a spinning thread behind)
const MAX_HANGS: u64 = 6;

// ------------------------------------------------------------------ pools

/// One rayon pool per size, built on first use (building up to 16 threads per
/// case would dominate the exhaustive sweep). A pool in which a call hung is
/// dropped from the cache: its workers are busy for ever.
static POOLS: Mutex<BTreeMap<usize, Arc<ThreadPool>>> = Mutex::new(BTreeMap::new());

fn pool(threads: usize) -> Arc<ThreadPool> {
    let mut g = POOLS.lock().unwrap_or_else(|e| e.into_inner());
    g.entry(threads)
        .or_insert_with(|| {
            Arc::new(
                coupe::rayon::ThreadPoolBuilder::new()
                    .num_threads(threads)
                    .build()
                    .expect("pool"),
            )
        })
        .clone()
}

fn forget_pool(threads: usize) {
    let mut g = POOLS.lock().unwrap_or_else(|e| e.into_inner());
    g.remove(&threads);
}

/// Run `f` inside the pool of `threads` workers, under the watchdog.
fn in_pool<R: Send + 'static>(threads: usize, f: impl FnOnce() -> R + Send + 'static) -> Caught<R> {
    let p = pool(threads);
    let r = catch_timeout(WATCHDOG_SECS, move || p.install(f));
    if let Caught::Hang = r {
        forget_pool(threads);
    }
    r
}

// ------------------------------------------------------------------ ops

#[derive(Clone, Debug)]
enum Op {
    Rcb { t: usize, float: bool, dims: Vec<usize>, iter: usize, plen: usize, ws: Vec<i64> },
    Med { t: usize, float: bool, total: i64, ws: Vec<i64> },
    Reuse { t: usize, float: bool, dims: Vec<usize>, iter_a: usize, iter_b: usize, wa: Vec<i64>, wb: Vec<i64> },
    Scaled { t: usize, e: i32, dims: Vec<usize>, iter: usize, toks: Vec<Tok> },
    MedScaled { t: usize, e: i32, total_k: i64, toks: Vec<Tok> },
    Typed { t: usize, ty: String, dims: Vec<usize>, iter: usize, ws: Vec<i64> },
    Context { kind: String, t: usize, float: bool, dims: Vec<usize>, iter: usize, copies: usize, ws: Vec<i64> },
    Pos { dims: Vec<usize>, i: usize },
    Idx { dims: Vec<usize>, pos: Vec<usize> },
    Len { dims: Vec<usize> },
}

/// A weight token of the scaled ops: `k` (weight `k * 2^e`) or `-0` (weight -0.0).
#[derive(Clone, Copy, Debug, PartialEq)]
enum Tok {
    K(i64),
    NegZero,
}

impl Tok {
    fn k(self) -> i64 {
        match self {
            Tok::K(k) => k,
            Tok::NegZero => 0,
        }
    }
}

fn parse_toks(it: &mut std::str::SplitWhitespace<'_>, n: usize) -> Option<Vec<Tok>> {
    let mut v = Vec::with_capacity(n.min(1 << 16));
    for _ in 0..n {
        let t = it.next()?;
        v.push(if t == "-0" {
            Tok::NegZero
        } else {
            let k: i64 = t.parse().ok()?;
            if !(0..(1i64 << 53)).contains(&k) {
                return None;
            }
            Tok::K(k)
        });
    }
    Some(v)
}

fn join_toks(toks: &[Tok]) -> String {
    let v: Vec<String> = toks
        .iter()
        .map(|t| match t {
            Tok::K(k) => k.to_string(),
            Tok::NegZero => "-0".to_string(),
        })
        .collect();
    v.join(" ")
}

/// `k * 2^e` built from its bit pattern (exact); `None` if not representable.
fn ldexp_exact(k: u64, e: i32) -> Option<f64> {
    if k == 0 {
        return Some(0.0);
    }
    if k >= 1 << 53 {
        return None;
    }
    let hb = 63 - k.leading_zeros() as i32;
    let ex = e + hb;
    if ex > 1023 {
        return None;
    }
    if ex >= -1022 {
        let mant = k << (52 - hb);
        Some(f64::from_bits((((ex + 1023) as u64) << 52) | (mant & ((1u64 << 52) - 1))))
    } else {
        let sh = e + 1074;
        if sh < 0 {
            return None;
        }
        Some(f64::from_bits(k << sh))
    }
}

/// `x / 2^e` as an exact integer (`x` finite, non-negative), if it is one and fits.
fn to_units(x: f64, e: i32) -> Option<i128> {
    if !(x.is_finite()) || x.is_sign_negative() && x != 0.0 {
        return None;
    }
    if x == 0.0 {
        return Some(0);
    }
    let bits = x.to_bits();
    let be = ((bits >> 52) & 0x7ff) as i32;
    let frac = bits & ((1u64 << 52) - 1);
    let (m, q) = if be == 0 { (frac, -1074) } else { (frac | (1u64 << 52), be - 1075) };
    let d = q - e;
    if d >= 0 {
        if d > 60 {
            return None;
        }
        Some((m as i128) << d)
    } else {
        let d = (-d) as u32;
        if d >= 64 || m & ((1u64 << d) - 1) != 0 {
            return None;
        }
        Some((m >> d) as i128)
    }
}

fn tok_weight(t: Tok, e: i32) -> Option<f64> {
    match t {
        Tok::NegZero => Some(-0.0),
        Tok::K(k) => ldexp_exact(k as u64, e),
    }
}

/// `frac10` / `frac3` / `frac997`: the integers times 0.1, 1/3, 1/997 as `f64` — INEXACT weights (sums
/// depend on the order of the additions): judged for termination, panics and the id range only.
const TYPES: [&str; 14] = ["i32", "u32", "u64", "usize", "u8", "i16", "u16", "isize", "f32", "i64arr", "f64box", "frac10", "frac3", "frac997"];

/// largest total the weight type can hold exactly (and, for f32, for which the f32 thresholds
/// order integer prefixes exactly like the f64 thresholds do)
fn type_limit(ty: &str) -> i64 {
    match ty {
        "u8" => u8::MAX as i64,
        "i16" => i16::MAX as i64,
        "u16" => u16::MAX as i64,
        "i32" => i32::MAX as i64,
        "u32" => u32::MAX as i64,
        "f32" => 100_000,
        _ => 1 << 50,
    }
}

fn mode_str(float: bool) -> &'static str {
    if float {
        "f"
    } else {
        "i"
    }
}

fn fmt_rcb(t: usize, float: bool, dims: &[usize], iter: usize, plen: usize, ws: &[i64]) -> String {
    let mut s = format!("rcb{} {} {} {} {} {} {}", dims.len(), t, mode_str(float), join(dims), iter, plen, ws.len());
    if !ws.is_empty() {
        s.push(' ');
        s.push_str(&join(ws));
    }
    s
}

fn fmt_med(t: usize, float: bool, total: i64, ws: &[i64]) -> String {
    let mut s = format!("med {} {} {} {}", t, mode_str(float), total, ws.len());
    if !ws.is_empty() {
        s.push(' ');
        s.push_str(&join(ws));
    }
    s
}

fn fmt_reuse(t: usize, float: bool, dims: &[usize], iter_a: usize, iter_b: usize, wa: &[i64], wb: &[i64]) -> String {
    format!(
        "reuse{} {} {} {} {} {} {} {} {}",
        dims.len(),
        t,
        mode_str(float),
        join(dims),
        iter_a,
        iter_b,
        wa.len(),
        join(wa),
        join(wb)
    )
}

fn parse_mode(s: &str) -> Option<bool> {
    match s {
        "i" => Some(false),
        "f" => Some(true),
        _ => None,
    }
}

fn take<T: std::str::FromStr>(it: &mut std::str::SplitWhitespace<'_>, n: usize) -> Option<Vec<T>> {
    let mut v = Vec::with_capacity(n.min(1 << 16));
    for _ in 0..n {
        v.push(it.next()?.parse().ok()?);
    }
    Some(v)
}

fn parse_op(op: &str) -> Option<Op> {
    let mut it = op.split_whitespace();
    let name = it.next()?;
    let parsed = match name {
        "rcb2" | "rcb3" => {
            let d = if name == "rcb2" { 2 } else { 3 };
            let t: usize = it.next()?.parse().ok()?;
            let float = parse_mode(it.next()?)?;
            let dims: Vec<usize> = take(&mut it, d)?;
            let rest: Vec<usize> = take(&mut it, 3)?;
            let (iter, plen, n) = (rest[0], rest[1], rest[2]);
            let ws: Vec<i64> = take(&mut it, n)?;
            // `NonZeroUsize` sides; a pool of 0 threads means "default size" to rayon
            if dims.iter().any(|&s| s == 0) || t == 0 || t > 64 {
                return None;
            }
            Op::Rcb { t, float, dims, iter, plen, ws }
        }
        "reuse2" | "reuse3" => {
            let d = if name == "reuse2" { 2 } else { 3 };
            let t: usize = it.next()?.parse().ok()?;
            let float = parse_mode(it.next()?)?;
            let dims: Vec<usize> = take(&mut it, d)?;
            let rest: Vec<usize> = take(&mut it, 3)?;
            let (iter_a, iter_b, n) = (rest[0], rest[1], rest[2]);
            let wa: Vec<i64> = take(&mut it, n)?;
            let wb: Vec<i64> = take(&mut it, n)?;
            if dims.iter().any(|&s| s == 0) || t == 0 || t > 64 || dims.iter().product::<usize>() != n {
                return None;
            }
            Op::Reuse { t, float, dims, iter_a, iter_b, wa, wb }
        }
        "rcbs2" | "rcbs3" => {
            let d = if name == "rcbs2" { 2 } else { 3 };
            let t: usize = it.next()?.parse().ok()?;
            let e: i32 = it.next()?.parse().ok()?;
            let dims: Vec<usize> = take(&mut it, d)?;
            let rest: Vec<usize> = take(&mut it, 2)?;
            let (iter, n) = (rest[0], rest[1]);
            let toks = parse_toks(&mut it, n)?;
            let sum: i128 = toks.iter().map(|t| t.k() as i128).sum();
            if dims.iter().any(|&s| s == 0) || t == 0 || t > 64 || dims.iter().product::<usize>() != n {
                return None;
            }
            // every weight and the total are exactly representable and finite
            if sum >= 1 << 53 || ldexp_exact(sum as u64, e).is_none() || toks.iter().any(|&t| tok_weight(t, e).is_none()) {
                return None;
            }
            Op::Scaled { t, e, dims, iter, toks }
        }
        "meds" => {
            let t: usize = it.next()?.parse().ok()?;
            let e: i32 = it.next()?.parse().ok()?;
            let total_k: i64 = it.next()?.parse().ok()?;
            let n: usize = it.next()?.parse().ok()?;
            let toks = parse_toks(&mut it, n)?;
            let sum: i128 = toks.iter().map(|t| t.k() as i128).sum();
            if t == 0 || t > 64 || !(0..(1i64 << 53)).contains(&total_k) || sum >= 1 << 53 {
                return None;
            }
            if ldexp_exact(total_k as u64, e).is_none()
                || ldexp_exact(sum as u64, e).is_none()
                || toks.iter().any(|&t| tok_weight(t, e).is_none())
            {
                return None;
            }
            Op::MedScaled { t, e, total_k, toks }
        }
        "rcbt2" | "rcbt3" => {
            let d = if name == "rcbt2" { 2 } else { 3 };
            let t: usize = it.next()?.parse().ok()?;
            let ty = it.next()?.to_string();
            let dims: Vec<usize> = take(&mut it, d)?;
            let rest: Vec<usize> = take(&mut it, 2)?;
            let (iter, n) = (rest[0], rest[1]);
            let ws: Vec<i64> = take(&mut it, n)?;
            let sum: i128 = ws.iter().map(|&w| w as i128).sum();
            if dims.iter().any(|&s| s == 0) || t == 0 || t > 64 || dims.iter().product::<usize>() != n {
                return None;
            }
            if !TYPES.contains(&ty.as_str()) || ws.iter().any(|&w| w < 0) || sum > type_limit(&ty) as i128 {
                return None;
            }
            if ty == "i64arr" && !matches!(n, 4 | 6 | 8 | 9) {
                return None;
            }
            Op::Typed { t, ty, dims, iter, ws }
        }
        "ctx2" | "ctx3" => {
            let d = if name == "ctx2" { 2 } else { 3 };
            let kind = it.next()?.to_string();
            let t: usize = it.next()?.parse().ok()?;
            let float = parse_mode(it.next()?)?;
            let dims: Vec<usize> = take(&mut it, d)?;
            let rest: Vec<usize> = take(&mut it, 3)?;
            let (iter, copies, n) = (rest[0], rest[1], rest[2]);
            let ws: Vec<i64> = take(&mut it, n)?;
            if dims.iter().any(|&s| s == 0) || t == 0 || t > 64 || dims.iter().product::<usize>() != n {
                return None;
            }
            if !["global", "join", "scope", "many"].contains(&kind.as_str()) || copies == 0 || copies > 64 {
                return None;
            }
            if ws.iter().any(|&w| w < 0) {
                return None;
            }
            Op::Context { kind, t, float, dims, iter, copies, ws }
        }
        "med" => {
            let t: usize = it.next()?.parse().ok()?;
            let float = parse_mode(it.next()?)?;
            let total: i64 = it.next()?.parse().ok()?;
            let n: usize = it.next()?.parse().ok()?;
            let ws: Vec<i64> = take(&mut it, n)?;
            if t == 0 || t > 64 {
                return None;
            }
            Op::Med { t, float, total, ws }
        }
        "pos2" | "pos3" => {
            let d = if name == "pos2" { 2 } else { 3 };
            let dims: Vec<usize> = take(&mut it, d)?;
            let i: usize = it.next()?.parse().ok()?;
            if dims.iter().any(|&s| s == 0) {
                return None;
            }
            Op::Pos { dims, i }
        }
        "idx2" | "idx3" => {
            let d = if name == "idx2" { 2 } else { 3 };
            let dims: Vec<usize> = take(&mut it, d)?;
            let pos: Vec<usize> = take(&mut it, d)?;
            if dims.iter().any(|&s| s == 0) {
                return None;
            }
            Op::Idx { dims, pos }
        }
        "len2" | "len3" => {
            let d = if name == "len2" { 2 } else { 3 };
            let dims: Vec<usize> = take(&mut it, d)?;
            if dims.iter().any(|&s| s == 0) {
                return None;
            }
            Op::Len { dims }
        }
        _ => return None,
    };
    if it.next().is_some() {
        return None;
    }
    Some(parsed)
}

fn nz(x: usize) -> NonZeroUsize {
    NonZeroUsize::new(x).expect("non-zero side")
}

fn grid2(d: &[usize]) -> coupe::Grid<2> {
    coupe::Grid::new_2d(nz(d[0]), nz(d[1]))
}

fn grid3(d: &[usize]) -> coupe::Grid<3> {
    coupe::Grid::new_3d(nz(d[0]), nz(d[1]), nz(d[2]))
}

// ------------------------------------------------------------------ oracle

/// Per-node statistics of the oracle (land in the histogram).
#[derive(Default)]
struct NodeStats {
    within: u64,
    adjacent_only: u64,
    empty_low: u64,
}

/// The balance clause of the property for one cut: `slabs` are the weights of the
/// slabs of the box along the cut's coordinate, `k` the number of slabs on the low
/// side, `unit` = 1 for integer weights (the "plus one unit"), 0 for `f64` weights.
/// `Ok(true)` = within 1 % of half, `Ok(false)` = only the adjacency clause holds.
fn balance_clause(slabs: &[i128], k: usize, unit: i128) -> Result<bool, String> {
    balance_clause_rel(slabs, k, unit, None)
}

/// `rel_shift = Some(s)`: the weights are exact integers in units of a power of two of `f64`
/// weights of arbitrary magnitude; the code's two thresholds carry a relative rounding error of
/// about 2^-52, so the 1 % clause is evaluated (in exact integers) with the extra slack `W / 2^s`.
fn balance_clause_rel(slabs: &[i128], k: usize, unit: i128, rel_shift: Option<u32>) -> Result<bool, String> {
    let w: i128 = slabs.iter().sum();
    let l: i128 = slabs[..k].iter().sum();
    let rel = rel_shift.map(|s| 200 * (w >> s)).unwrap_or(0);
    if 200 * l >= 99 * w - 200 * unit - rel && 200 * l <= 101 * w + 200 * unit + rel {
        return Ok(true);
    }
    // the cut is adjacent to the slab that contains the half-weight mark: slab `v`
    // just below or just above the cut with pre(v) <= W/2 <= pre(v+1)
    let mut cands = vec![];
    if k >= 1 {
        cands.push(k - 1);
    }
    if k < slabs.len() {
        cands.push(k);
    }
    for v in cands {
        let pre_v: i128 = slabs[..v].iter().sum();
        let pre_v1 = pre_v + slabs[v];
        if 2 * pre_v <= w && w <= 2 * pre_v1 {
            return Ok(false);
        }
    }
    Err(format!("W={} L={} cut after {} of {} slabs, slabs={:?}", w, l, k, slabs.len(), slabs))
}

struct BoxCheck<'a> {
    d: usize,
    dims: [usize; 3],
    iter: usize,
    ids: &'a [usize],
    ws: &'a [i64],
    unit: i128,
    rel_shift: Option<u32>,
    stats: NodeStats,
}

impl BoxCheck<'_> {
    /// row major / row-then-column major layout of `weights` and `partition`
    fn cell(&self, p: [usize; 3]) -> usize {
        p[0] + self.dims[0] * (p[1] + self.dims[1] * p[2])
    }

    /// cells of the box `lo..hi` whose coordinate `c` equals `v`
    fn slab_cells(&self, lo: [usize; 3], hi: [usize; 3], c: usize, v: usize) -> Vec<usize> {
        let (mut lo, mut hi) = (lo, hi);
        lo[c] = v;
        hi[c] = v + 1;
        let mut out = vec![];
        for z in lo[2]..hi[2] {
            for y in lo[1]..hi[1] {
                for x in lo[0]..hi[0] {
                    out.push(self.cell([x, y, z]));
                }
            }
        }
        out
    }

    fn check(&mut self, lo: [usize; 3], hi: [usize; 3], level: usize, c: usize) -> Result<(), (&'static str, String)> {
        if (0..3).any(|a| lo[a] >= hi[a]) {
            return Ok(()); // no cell
        }
        if level == self.iter {
            // a leaf: one id
            let first = self.ids[self.cell(lo)];
            for v in lo[c]..hi[c] {
                for i in self.slab_cells(lo, hi, c, v) {
                    if self.ids[i] != first {
                        return Err((
                            "not-a-box",
                            format!("leaf box {:?}..{:?} holds ids {} and {}", lo, hi, first, self.ids[i]),
                        ));
                    }
                }
            }
            return Ok(());
        }
        let shift = self.iter - 1 - level;
        let mut slabs: Vec<i128> = vec![];
        let mut bits: Vec<usize> = vec![];
        for v in lo[c]..hi[c] {
            let cells = self.slab_cells(lo, hi, c, v);
            let mut s = 0i128;
            let b0 = (self.ids[cells[0]] >> shift) & 1;
            for &i in &cells {
                s += self.ws[i] as i128;
                if (self.ids[i] >> shift) & 1 != b0 {
                    return Err((
                        "not-a-box",
                        format!(
                            "level {} box {:?}..{:?}: bit {} of the ids varies inside the slab {} of coordinate {}",
                            level, lo, hi, shift, v, c
                        ),
                    ));
                }
            }
            slabs.push(s);
            bits.push(b0);
        }
        let k = bits.iter().position(|&b| b == 1).unwrap_or(bits.len());
        if bits[k..].iter().any(|&b| b == 0) {
            return Err((
                "not-a-box",
                format!(
                    "level {} box {:?}..{:?}: bit {} along coordinate {} is {:?}, not a step",
                    level, lo, hi, shift, c, bits
                ),
            ));
        }
        match balance_clause_rel(&slabs, k, self.unit, self.rel_shift) {
            Ok(true) => self.stats.within += 1,
            Ok(false) => self.stats.adjacent_only += 1,
            Err(m) => {
                return Err((
                    "unbalanced",
                    format!("level {} box {:?}..{:?} coord {} cut p={}: {}", level, lo, hi, c, lo[c] + k, m),
                ))
            }
        }
        if k == 0 {
            self.stats.empty_low += 1;
        }
        let p = lo[c] + k;
        let (mut lhi, mut hlo) = (hi, lo);
        lhi[c] = p;
        hlo[c] = p;
        let next = (c + 1) % self.d;
        self.check(lo, lhi, level + 1, next)?;
        self.check(hlo, hi, level + 1, next)
    }
}

/// The property statement on one output of `Grid::rcb` (`ids.len() == ws.len() == grid len`,
/// weights non-negative).
fn rcb_oracle(
    dims: &[usize],
    iter: usize,
    float: bool,
    ids: &[usize],
    ws: &[i64],
) -> Result<NodeStats, (&'static str, String)> {
    rcb_oracle_ext(dims, iter, if float { 0 } else { 1 }, None, ids, ws)
}

/// The same with the slack of the 1 % clause given explicitly (`unit` absolute, `rel_shift` relative).
fn rcb_oracle_ext(
    dims: &[usize],
    iter: usize,
    unit: i128,
    rel_shift: Option<u32>,
    ids: &[usize],
    ws: &[i64],
) -> Result<NodeStats, (&'static str, String)> {
    if iter < usize::BITS as usize {
        if let Some((i, id)) = ids.iter().enumerate().find(|(_, &id)| id >> iter != 0) {
            return Err(("id-out-of-range", format!("cell {} has id {} >= 2^{}", i, id, iter)));
        }
    }
    let mut d3 = [1usize; 3];
    d3[..dims.len()].copy_from_slice(dims);
    let mut chk = BoxCheck {
        d: dims.len(),
        dims: d3,
        iter,
        ids,
        ws,
        unit,
        rel_shift,
        stats: NodeStats::default(),
    };
    // `Grid::rcb` starts with coordinate 1
    chk.check([0; 3], d3, 0, 1)?;
    Ok(chk.stats)
}

// ------------------------------------------------------------------ runner

pub fn run_op(ctx: &mut Ctx, op: &str) {
    if ctx.hang_limit_reached() {
        return;
    }
    let Some(parsed) = parse_op(op) else {
        ctx.count("bad-op");
        ctx.record(op.to_string(), "bad-op".into(), false);
        return;
    };
    match parsed {
        Op::Rcb { t, float, dims, iter, plen, ws } => run_rcb(ctx, op, t, float, dims, iter, plen, ws),
        Op::Med { t, float, total, ws } => run_med(ctx, op, t, float, total, ws),
        Op::Scaled { t, e, dims, iter, toks } => run_scaled(ctx, op, t, e, dims, iter, toks),
        Op::MedScaled { t, e, total_k, toks } => run_med_scaled(ctx, op, t, e, total_k, toks),
        Op::Typed { t, ty, dims, iter, ws } => run_typed(ctx, op, t, ty, dims, iter, ws),
        Op::Context { kind, t, float, dims, iter, copies, ws } => run_context(ctx, op, kind, t, float, dims, iter, copies, ws),
        Op::Reuse { t, float, dims, iter_a, iter_b, wa, wb } => run_reuse(ctx, op, t, float, dims, iter_a, iter_b, wa, wb),
        Op::Pos { dims, i } => {
            let glen: u128 = dims.iter().map(|&s| s as u128).product();
            let d = dims.clone();
            let r = catch(move || {
                if d.len() == 2 {
                    let g = grid2(&d);
                    let p = coupe::verif_cartesian::position_of(g, i);
                    (p.to_vec(), coupe::verif_cartesian::index_of(g, p))
                } else {
                    let g = grid3(&d);
                    let p = coupe::verif_cartesian::position_of(g, i);
                    (p.to_vec(), coupe::verif_cartesian::index_of(g, p))
                }
            });
            let in_range = (i as u128) < glen;
            let mut verdict = None;
            let out = match r {
                Caught::Ok((p, back)) => {
                    if in_range {
                        if p.iter().zip(&dims).any(|(x, s)| x >= s) {
                            verdict = Some(("index-map", format!("position_of({}) = {:?} outside {:?}", i, p, dims)));
                        } else if back != i {
                            verdict = Some(("index-map", format!("index_of(position_of({})) = {}", i, back)));
                        }
                    }
                    format!("pos {}", join(&p))
                }
                Caught::Panic(m) => {
                    verdict = Some(("panic", format!("{} [{}]", m, panic_sig(&m))));
                    format!("panic {}", m)
                }
                Caught::Hang => unreachable!(),
            };
            ctx.count("out_pos");
            let idx = ctx.record(op.to_string(), out, in_range && glen >= 2);
            if let Some((sig, what)) = verdict {
                ctx.fail(idx, sig, what);
            }
        }
        Op::Idx { dims, pos } => {
            let glen: u128 = dims.iter().map(|&s| s as u128).product();
            let in_range = pos.iter().zip(&dims).all(|(x, s)| x < s);
            let (d, p) = (dims.clone(), pos.clone());
            let r = catch(move || {
                if d.len() == 2 {
                    let g = grid2(&d);
                    let i = coupe::verif_cartesian::index_of(g, [p[0], p[1]]);
                    (i, coupe::verif_cartesian::position_of(g, i).to_vec())
                } else {
                    let g = grid3(&d);
                    let i = coupe::verif_cartesian::index_of(g, [p[0], p[1], p[2]]);
                    (i, coupe::verif_cartesian::position_of(g, i).to_vec())
                }
            });
            let mut verdict = None;
            let out = match r {
                Caught::Ok((i, back)) => {
                    // x + w*(y + h*z)
                    let z = if dims.len() == 3 { pos[2] as u128 } else { 0 };
                    let h = dims[1] as u128;
                    let want = pos[0] as u128 + dims[0] as u128 * (pos[1] as u128 + h * z);
                    if i as u128 != want {
                        verdict = Some(("index-map", format!("index_of({:?}) = {} but x + w*(y + h*z) = {}", pos, i, want)));
                    } else if in_range && (i as u128 >= glen || back != pos) {
                        verdict = Some(("index-map", format!("index_of({:?}) = {}, position_of gives {:?}", pos, i, back)));
                    }
                    format!("idx {}", i)
                }
                Caught::Panic(m) => {
                    verdict = Some(("panic", format!("{} [{}]", m, panic_sig(&m))));
                    format!("panic {}", m)
                }
                Caught::Hang => unreachable!(),
            };
            ctx.count("out_idx");
            let idx = ctx.record(op.to_string(), out, in_range && glen >= 2);
            if let Some((sig, what)) = verdict {
                ctx.fail(idx, sig, what);
            }
        }
        Op::Len { dims } => {
            let d = dims.clone();
            let r = catch(move || {
                if d.len() == 2 {
                    coupe::verif_cartesian::len(grid2(&d))
                } else {
                    coupe::verif_cartesian::len(grid3(&d))
                }
            });
            let want: u128 = dims.iter().map(|&s| s as u128).product();
            let mut verdict = None;
            let out = match r {
                Caught::Ok(n) => {
                    if n as u128 != want {
                        verdict = Some(("index-map", format!("len = {} for sides {:?}", n, dims)));
                    }
                    format!("len {}", n)
                }
                Caught::Panic(m) => {
                    verdict = Some(("panic", format!("{} [{}]", m, panic_sig(&m))));
                    format!("panic {}", m)
                }
                Caught::Hang => unreachable!(),
            };
            ctx.count("out_len");
            let idx = ctx.record(op.to_string(), out, want >= 2);
            if let Some((sig, what)) = verdict {
                ctx.fail(idx, sig, what);
            }
        }
    }
}

#[allow(clippy::too_many_arguments)]
fn run_rcb(ctx: &mut Ctx, op: &str, t: usize, float: bool, dims: Vec<usize>, iter: usize, plen: usize, ws: Vec<i64>) {
    let glen: usize = dims.iter().product();
    let n = ws.len();
    let (d, w2) = (dims.clone(), ws.clone());
    let res = in_pool(t, move || {
        let mut partition = vec![usize::MAX; plen];
        match (d.len(), float) {
            (2, false) => grid2(&d).rcb(&mut partition, &w2, iter),
            (2, true) => {
                let wf: Vec<f64> = w2.iter().map(|&w| w as f64).collect();
                grid2(&d).rcb(&mut partition, &wf, iter)
            }
            (_, false) => grid3(&d).rcb(&mut partition, &w2, iter),
            (_, true) => {
                let wf: Vec<f64> = w2.iter().map(|&w| w as f64).collect();
                grid3(&d).rcb(&mut partition, &wf, iter)
            }
        }
        partition
    });
    let well_formed = n == glen && plen == glen && ws.iter().all(|&w| w >= 0);
    let nontrivial = well_formed && glen >= 2 && iter >= 1;
    let mut verdict: Option<(&str, String)> = None;
    let out = match res {
        Caught::Ok(ids) => {
            ctx.count("out_ids");
            if well_formed {
                match rcb_oracle(&dims, iter, float, &ids, &ws) {
                    Ok(st) => {
                        ctx.count("oracle_rcb_checked");
                        *ctx.hist.entry("oracle_nodes_within_1pct".into()).or_insert(0) += st.within;
                        *ctx.hist.entry("oracle_nodes_adjacent_clause_only".into()).or_insert(0) += st.adjacent_only;
                        *ctx.hist.entry("oracle_nodes_empty_low_side".into()).or_insert(0) += st.empty_low;
                    }
                    Err((sig, what)) => verdict = Some((sig, what)),
                }
            }
            format!("ids {}", join(&ids))
        }
        Caught::Panic(m) => {
            if n < glen {
                // malformed input (weights shorter than the grid): the documented layout is
                // violated by the caller, an index panic is the expected outcome
                ctx.count("out_panic_short_weights");
            } else {
                ctx.count("out_panic");
                verdict = Some(("panic", format!("{} [{}]", m, panic_sig(&m))));
            }
            format!("panic {}", m)
        }
        Caught::Hang => {
            ctx.count("hang");
            verdict = Some(("hang", format!("no return within {} s on a pool of {} thread(s)", WATCHDOG_SECS, t)));
            "hang".into()
        }
    };
    let idx = ctx.record(op.to_string(), out, nontrivial);
    if let Some((sig, what)) = verdict {
        ctx.fail(idx, sig, what);
    }
}

/// `Grid::rcb` for any admitted weight type.
fn call_typed<W>(d: &[usize], partition: &mut [usize], ws: &[W], iter: usize)
where
    W: Send + Sync + PartialOrd + coupe::num_traits::Num + std::iter::Sum + coupe::num_traits::AsPrimitive<f64>,
    f64: coupe::num_traits::AsPrimitive<W>,
{
    if d.len() == 2 {
        grid2(d).rcb(partition, ws, iter)
    } else {
        grid3(d).rcb(partition, ws, iter)
    }
}

/// slack of the oracle's 1 % clause for `f64` weights `k * 2^e`: one unit where the values
/// live on (or near) the subnormal grid, where the thresholds are rounded to multiples of 2^-1074
fn scaled_unit(e: i32) -> i128 {
    if e < -1022 + 53 {
        1
    } else {
        0
    }
}

const REL_SHIFT: u32 = 45;

/// SPECIAL VALUES: `f64` weights `k * 2^e` (subnormal, smallest normal, near overflow) and -0.0.
fn run_scaled(ctx: &mut Ctx, op: &str, t: usize, e: i32, dims: Vec<usize>, iter: usize, toks: Vec<Tok>) {
    let glen: usize = dims.iter().product();
    let ws: Vec<f64> = toks.iter().map(|&t| tok_weight(t, e).expect("checked")).collect();
    let ks: Vec<i64> = toks.iter().map(|t| t.k()).collect();
    let has_negzero = toks.iter().any(|&t| t == Tok::NegZero);
    let total_k: i64 = ks.iter().sum();
    let total_ex = if total_k > 0 { e + 63 - (total_k as u64).leading_zeros() as i32 } else { 0 };
    // scale invariance must hold exactly when no intermediate value can be subnormal or overflow
    let normal_range = e >= -1020 && total_ex <= 1022;
    let (d, w) = (dims.clone(), ws.clone());
    let k2 = ks.clone();
    let res = in_pool(t, move || {
        let mut p = vec![usize::MAX; glen];
        call_typed(&d, &mut p, &w, iter);
        let poszero = if has_negzero {
            let w0: Vec<f64> = w.iter().map(|&x| if x == 0.0 { 0.0 } else { x }).collect();
            let mut q = vec![usize::MAX; glen];
            call_typed(&d, &mut q, &w0, iter);
            Some(q)
        } else {
            None
        };
        let unscaled = if normal_range && e != 0 {
            let w1: Vec<f64> = k2.iter().map(|&k| k as f64).collect();
            let mut q = vec![usize::MAX; glen];
            call_typed(&d, &mut q, &w1, iter);
            Some(q)
        } else {
            None
        };
        (p, poszero, unscaled)
    });
    let mut verdict: Option<(&str, String)> = None;
    let out = match res {
        Caught::Ok((ids, poszero, unscaled)) => {
            ctx.count("out_ids");
            if let Some(q) = poszero {
                ctx.count("special:negzero_vs_poszero_compared");
                if let Some(i) = (0..glen).find(|&i| q[i] != ids[i]) {
                    verdict = Some(("negzero-dependent@grid_rcb", format!("cell {}: id {} with -0.0 weights, {} with +0.0", i, ids[i], q[i])));
                }
            }
            if let Some(q) = unscaled {
                ctx.count("special:scale_invariance_compared");
                if let Some(i) = (0..glen).find(|&i| q[i] != ids[i]) {
                    verdict = Some(("scale-dependent@grid_rcb", format!("cell {}: id {} at scale 2^{}, {} at scale 1", i, ids[i], e, q[i])));
                }
            } else if e != 0 {
                ctx.count("special:outside_normal_range_oracle_and_model_only");
            }
            if verdict.is_none() {
                match rcb_oracle_ext(&dims, iter, scaled_unit(e), Some(REL_SHIFT), &ids, &ks) {
                    Ok(_) => ctx.count("oracle_rcb_checked"),
                    Err((sig, what)) => verdict = Some((sig, what)),
                }
            }
            format!("ids {}", join(&ids))
        }
        Caught::Panic(m) => {
            ctx.count("out_panic");
            verdict = Some(("panic", format!("{} [{}]", m, panic_sig(&m))));
            format!("panic {}", m)
        }
        Caught::Hang => {
            ctx.count("hang");
            verdict = Some(("hang", format!("no return within {} s on a pool of {} thread(s)", WATCHDOG_SECS, t)));
            "hang".into()
        }
    };
    let idx = ctx.record(op.to_string(), out, glen >= 2 && iter >= 1);
    if let Some((sig, what)) = verdict {
        ctx.fail(idx, sig, what);
    }
}

fn run_med_scaled(ctx: &mut Ctx, op: &str, t: usize, e: i32, total_k: i64, toks: Vec<Tok>) {
    let n = toks.len();
    let ws: Vec<f64> = toks.iter().map(|&t| tok_weight(t, e).expect("checked")).collect();
    let ks: Vec<i128> = toks.iter().map(|t| t.k() as i128).collect();
    let total = ldexp_exact(total_k as u64, e).expect("checked");
    let has_negzero = toks.iter().any(|&t| t == Tok::NegZero);
    let w = ws.clone();
    let res = in_pool(t, move || {
        let r = coupe::verif_cartesian::weighted_median_f64(&w, total);
        let r0 = if has_negzero {
            let w0: Vec<f64> = w.iter().map(|&x| if x == 0.0 { 0.0 } else { x }).collect();
            Some(coupe::verif_cartesian::weighted_median_f64(&w0, total))
        } else {
            None
        };
        (r, r0)
    });
    let sum: i128 = ks.iter().sum();
    let plain = sum == total_k as i128;
    let mut verdict: Option<(&str, String)> = None;
    let out = match res {
        Caught::Ok(((p, l), r0)) => {
            ctx.count("out_med");
            if let Some((p0, l0)) = r0 {
                ctx.count("special:negzero_vs_poszero_compared");
                if p0 != p || l0.to_bits() != l.to_bits() && !(l0 == 0.0 && l == 0.0) {
                    verdict = Some(("negzero-dependent@grid_rcb", format!("weighted_median ({}, {:e}) with -0.0, ({}, {:e}) with +0.0", p, l, p0, l0)));
                }
            }
            match to_units(l, e) {
                Some(lk) if p <= n => {
                    let pre: i128 = ks[..p].iter().sum();
                    if pre != lk {
                        verdict = Some(("median-prefix", format!("left_weight {} units but the {} first weights sum to {} units", lk, p, pre)));
                    } else if plain && verdict.is_none() {
                        ctx.count("oracle_med_checked");
                        if p >= n.max(1) {
                            verdict = Some(("median-position", format!("position {} with {} weights", p, n)));
                        } else if let Err(m) = balance_clause_rel(&ks, p, scaled_unit(e), Some(REL_SHIFT)) {
                            verdict = Some(("unbalanced", format!("weighted_median position {}: {}", p, m)));
                        }
                    }
                    format!("med {} {}", p, lk)
                }
                _ => {
                    verdict = Some(("median-prefix", format!("position {} of {}, left_weight {:e} is not a multiple of 2^{}", p, n, l, e)));
                    format!("med {} nonint:{:x}", p, l.to_bits())
                }
            }
        }
        Caught::Panic(m) => {
            ctx.count("out_panic");
            verdict = Some(("panic", format!("{} [{}]", m, panic_sig(&m))));
            format!("panic {}", m)
        }
        Caught::Hang => {
            ctx.count("hang");
            verdict = Some(("hang", format!("no return within {} s on a pool of {} thread(s)", WATCHDOG_SECS, t)));
            "hang".into()
        }
    };
    let idx = ctx.record(op.to_string(), out, plain && n >= 2);
    if let Some((sig, what)) = verdict {
        ctx.fail(idx, sig, what);
    }
}

/// PLUMBING: the same integers through every admitted weight type; integer types must give the
/// `i64` result, `f32` (totals up to 100 000) the `f64` result, arrays / boxed slices the slice result.
fn run_typed(ctx: &mut Ctx, op: &str, t: usize, ty: String, dims: Vec<usize>, iter: usize, ws: Vec<i64>) {
    let glen: usize = dims.iter().product();
    let float = ty == "f32" || ty == "f64box";
    let (d, w, ty2) = (dims.clone(), ws.clone(), ty.clone());
    let res = in_pool(t, move || {
        let mut p = vec![usize::MAX; glen];
        macro_rules! as_type {
            ($t:ty) => {{
                let v: Vec<$t> = w.iter().map(|&x| x as $t).collect();
                call_typed(&d, &mut p, &v, iter)
            }};
        }
        match ty2.as_str() {
            "i32" => as_type!(i32),
            "u32" => as_type!(u32),
            "u64" => as_type!(u64),
            "usize" => as_type!(usize),
            "u8" => as_type!(u8),
            "i16" => as_type!(i16),
            "u16" => as_type!(u16),
            "isize" => as_type!(isize),
            "f32" => as_type!(f32),
            "f64box" => {
                let b: Box<[f64]> = w.iter().map(|&x| x as f64).collect();
                call_typed(&d, &mut p, &b, iter)
            }
            "frac10" | "frac3" | "frac997" => {
                let f = match ty2.as_str() {
                    "frac10" => 0.1,
                    "frac3" => 1.0 / 3.0,
                    _ => 1.0 / 997.0,
                };
                let v: Vec<f64> = w.iter().map(|&x| x as f64 * f).collect();
                call_typed(&d, &mut p, &v, iter)
            }
            _ => match w.len() {
                // "i64arr": a reference to an array
                4 => call_typed(&d, &mut p, &<[i64; 4]>::try_from(&w[..]).unwrap(), iter),
                6 => call_typed(&d, &mut p, &<[i64; 6]>::try_from(&w[..]).unwrap(), iter),
                8 => call_typed(&d, &mut p, &<[i64; 8]>::try_from(&w[..]).unwrap(), iter),
                _ => call_typed(&d, &mut p, &<[i64; 9]>::try_from(&w[..]).unwrap(), iter),
            },
        }
        let mut q = vec![usize::MAX; glen];
        call_rcb(&d, float, &mut q, &w, iter);
        (p, q)
    });
    let mut verdict: Option<(&str, String)> = None;
    let out = match res {
        Caught::Ok((ids, reference)) => {
            ctx.count("out_ids");
            if ty.starts_with("frac") {
                // inexact weights: no exact claim about the cuts; every cell written, ids below 2^iter
                ctx.count("frac_weights_runs");
                if let Some(i) = (0..glen).find(|&i| ids[i] == usize::MAX) {
                    verdict = Some(("grid-rcb-cell-not-written", format!("cell {} was not written ({} weights)", i, ty)));
                } else if let Some(i) = (0..glen).find(|&i| iter < 60 && ids[i] >= (1usize << iter)) {
                    verdict = Some(("grid-rcb-id-out-of-range", format!("cell {}: id {} >= 2^{} ({} weights)", i, ids[i], iter, ty)));
                }
            } else if let Some(i) = (0..glen).find(|&i| ids[i] != reference[i]) {
                verdict = Some((
                    "input-type-dependent@grid_rcb",
                    format!("cell {}: id {} with {} weights, {} with {} weights", i, ids[i], ty, reference[i], if float { "f64" } else { "i64" }),
                ));
            } else {
                match rcb_oracle(&dims, iter, float, &ids, &ws) {
                    Ok(_) => ctx.count("oracle_rcb_checked"),
                    Err((sig, what)) => verdict = Some((sig, what)),
                }
            }
            format!("ids {}", join(&ids))
        }
        Caught::Panic(m) => {
            ctx.count("out_panic");
            verdict = Some(("panic", format!("{} [{}]", m, panic_sig(&m))));
            format!("panic {}", m)
        }
        Caught::Hang => {
            ctx.count("hang");
            verdict = Some(("hang", format!("no return within {} s on a pool of {} thread(s)", WATCHDOG_SECS, t)));
            "hang".into()
        }
    };
    let idx = ctx.record(op.to_string(), out, glen >= 2 && iter >= 1);
    if let Some((sig, what)) = verdict {
        ctx.fail(idx, sig, what);
    }
}

/// Threads of the global rayon pool: this process builds it itself (once) so that the count
/// does not depend on the machine; if something initialised it before, the observed count.
const GLOBAL_THREADS: usize = 5;

fn global_threads() -> usize {
    static ONCE: std::sync::OnceLock<usize> = std::sync::OnceLock::new();
    *ONCE.get_or_init(|| {
        let _ = coupe::rayon::ThreadPoolBuilder::new().num_threads(GLOBAL_THREADS).build_global();
        coupe::rayon::current_num_threads()
    })
}

/// CONTEXT: the same call on the global pool, from inside a rayon task, and many at once.
#[allow(clippy::too_many_arguments)]
fn run_context(ctx: &mut Ctx, op: &str, kind: String, t: usize, float: bool, dims: Vec<usize>, iter: usize, copies: usize, ws: Vec<i64>) {
    let glen: usize = dims.iter().product();
    if kind == "global" && global_threads() != t {
        // the op was written on a machine / in a process whose global pool has another size
        ctx.count("context:global_pool_size_differs");
        ctx.record(op.to_string(), "bad-op".into(), false);
        return;
    }
    let (d, w, kd) = (dims.clone(), ws.clone(), kind.clone());
    let body = move || -> (Vec<usize>, Option<String>) {
        use coupe::rayon::prelude::*;
        match kd.as_str() {
            "join" => {
                let (p, _) = coupe::rayon::join(
                    || {
                        let mut p = vec![usize::MAX; glen];
                        call_rcb(&d, float, &mut p, &w, iter);
                        p
                    },
                    || std::hint::black_box(0u64),
                );
                (p, None)
            }
            "scope" => {
                let mut p = vec![usize::MAX; glen];
                coupe::rayon::scope(|s| {
                    s.spawn(|_| call_rcb(&d, float, &mut p, &w, iter));
                });
                (p, None)
            }
            "many" => {
                let inputs: Vec<Vec<i64>> = (0..copies)
                    .map(|j| {
                        let mut v = w.clone();
                        v.rotate_left(j % glen.max(1));
                        v
                    })
                    .collect();
                let conc: Vec<Vec<usize>> = inputs
                    .par_iter()
                    .map(|v| {
                        let mut p = vec![usize::MAX; glen];
                        call_rcb(&d, float, &mut p, v, iter);
                        p
                    })
                    .collect();
                let mut diff = None;
                for (j, v) in inputs.iter().enumerate() {
                    let mut p = vec![usize::MAX; glen];
                    call_rcb(&d, float, &mut p, v, iter);
                    if p != conc[j] && diff.is_none() {
                        let i = (0..glen).find(|&i| p[i] != conc[j][i]).unwrap();
                        diff = Some(format!("concurrent call {} of {}: cell {} got id {}, sequentially {}", j, copies, i, conc[j][i], p[i]));
                    }
                }
                (conc.into_iter().next().unwrap(), diff)
            }
            _ => {
                // "global": called from a thread outside any pool
                let mut p = vec![usize::MAX; glen];
                call_rcb(&d, float, &mut p, &w, iter);
                (p, None)
            }
        }
    };
    let res = if kind == "global" { catch_timeout(WATCHDOG_SECS, body) } else { in_pool(t, body) };
    let mut verdict: Option<(&str, String)> = None;
    let out = match res {
        Caught::Ok((ids, diff)) => {
            ctx.count("out_ids");
            if let Some(what) = diff {
                verdict = Some(("context-dependent@grid_rcb", what));
            } else {
                match rcb_oracle(&dims, iter, float, &ids, &ws) {
                    Ok(_) => ctx.count("oracle_rcb_checked"),
                    Err((sig, what)) => verdict = Some((sig, what)),
                }
            }
            format!("ids {}", join(&ids))
        }
        Caught::Panic(m) => {
            ctx.count("out_panic");
            verdict = Some(("panic", format!("{} [{}]", m, panic_sig(&m))));
            format!("panic {}", m)
        }
        Caught::Hang => {
            ctx.count("hang");
            verdict = Some(("hang", format!("no return within {} s ({} context, {} thread(s))", WATCHDOG_SECS, kind, t)));
            "hang".into()
        }
    };
    let idx = ctx.record(op.to_string(), out, glen >= 2 && iter >= 1);
    if let Some((sig, what)) = verdict {
        ctx.fail(idx, sig, what);
    }
}

/// One call of `Grid::rcb` on `ws` into `partition` (the four monomorphic instances).
fn call_rcb(d: &[usize], float: bool, partition: &mut [usize], ws: &[i64], iter: usize) {
    match (d.len(), float) {
        (2, false) => grid2(d).rcb(partition, ws, iter),
        (2, true) => {
            let wf: Vec<f64> = ws.iter().map(|&w| w as f64).collect();
            grid2(d).rcb(partition, &wf, iter)
        }
        (_, false) => grid3(d).rcb(partition, ws, iter),
        (_, true) => {
            let wf: Vec<f64> = ws.iter().map(|&w| w as f64).collect();
            grid3(d).rcb(partition, &wf, iter)
        }
    }
}

/// REUSE: the same grid value and the same output buffer used for two successive calls
/// (first `wa` with `iter_a`, then `wb` with `iter_b`); the second result must not depend
/// on the first call: it is compared with a fresh-buffer call and checked by the oracle.
#[allow(clippy::too_many_arguments)]
fn run_reuse(ctx: &mut Ctx, op: &str, t: usize, float: bool, dims: Vec<usize>, iter_a: usize, iter_b: usize, wa: Vec<i64>, wb: Vec<i64>) {
    let glen: usize = dims.iter().product();
    let (d, a, b) = (dims.clone(), wa.clone(), wb.clone());
    let res = in_pool(t, move || {
        let mut reused = vec![usize::MAX; glen];
        call_rcb(&d, float, &mut reused, &a, iter_a);
        call_rcb(&d, float, &mut reused, &b, iter_b);
        let mut fresh = vec![usize::MAX; glen];
        call_rcb(&d, float, &mut fresh, &b, iter_b);
        (reused, fresh)
    });
    let well_formed = wb.iter().all(|&w| w >= 0) && wa.iter().all(|&w| w >= 0);
    let mut verdict: Option<(&str, String)> = None;
    let out = match res {
        Caught::Ok((reused, fresh)) => {
            ctx.count("out_ids");
            if let Some(i) = (0..glen).find(|&i| reused[i] != fresh[i]) {
                verdict = Some((
                    "reuse-dependence",
                    format!("cell {}: id {} after a previous call into the same buffer, {} on a fresh buffer", i, reused[i], fresh[i]),
                ));
            } else if well_formed {
                match rcb_oracle(&dims, iter_b, float, &reused, &wb) {
                    Ok(_) => ctx.count("oracle_rcb_checked"),
                    Err((sig, what)) => verdict = Some((sig, what)),
                }
            }
            format!("ids {}", join(&reused))
        }
        Caught::Panic(m) => {
            ctx.count("out_panic");
            verdict = Some(("panic", format!("{} [{}]", m, panic_sig(&m))));
            format!("panic {}", m)
        }
        Caught::Hang => {
            ctx.count("hang");
            verdict = Some(("hang", format!("no return within {} s on a pool of {} thread(s)", WATCHDOG_SECS, t)));
            "hang".into()
        }
    };
    let idx = ctx.record(op.to_string(), out, well_formed && glen >= 2 && iter_b >= 1);
    if let Some((sig, what)) = verdict {
        ctx.fail(idx, sig, what);
    }
}

fn run_med(ctx: &mut Ctx, op: &str, t: usize, float: bool, total: i64, ws: Vec<i64>) {
    let n = ws.len();
    let w2 = ws.clone();
    let res = in_pool(t, move || {
        if float {
            let wf: Vec<f64> = w2.iter().map(|&w| w as f64).collect();
            let (p, l) = coupe::verif_cartesian::weighted_median_f64(&wf, total as f64);
            (p, l as i64, l.fract() == 0.0 && l.is_finite())
        } else {
            let (p, l) = coupe::verif_cartesian::weighted_median_i64(&w2, total);
            (p, l, true)
        }
    });
    let sum: i128 = ws.iter().map(|&w| w as i128).sum();
    let plain = ws.iter().all(|&w| w >= 0) && sum == total as i128;
    let nontrivial = plain && n >= 2;
    let mut verdict: Option<(&str, String)> = None;
    let out = match res {
        Caught::Ok((p, l, integral)) => {
            ctx.count("out_med");
            if p > n {
                verdict = Some(("median-position", format!("position {} beyond {} weights", p, n)));
            } else {
                let pre: i128 = ws[..p].iter().map(|&w| w as i128).sum();
                if pre != l as i128 || !integral {
                    verdict = Some(("median-prefix", format!("left_weight {} but the {} first weights sum to {}", l, p, pre)));
                } else if plain {
                    ctx.count("oracle_med_checked");
                    if p >= n.max(1) {
                        verdict = Some(("median-position", format!("position {} with {} weights", p, n)));
                    } else {
                        let slabs: Vec<i128> = ws.iter().map(|&w| w as i128).collect();
                        match balance_clause(&slabs, p, if float { 0 } else { 1 }) {
                            Ok(true) => ctx.count("oracle_med_within_1pct"),
                            Ok(false) => ctx.count("oracle_med_adjacent_clause_only"),
                            Err(m) => verdict = Some(("unbalanced", format!("weighted_median position {}: {}", p, m))),
                        }
                    }
                } else {
                    ctx.count("oracle_med_prefix_only");
                }
            }
            format!("med {} {}", p, l)
        }
        Caught::Panic(m) => {
            ctx.count("out_panic");
            verdict = Some(("panic", format!("{} [{}]", m, panic_sig(&m))));
            format!("panic {}", m)
        }
        Caught::Hang => {
            ctx.count("hang");
            verdict = Some(("hang", format!("no return within {} s on a pool of {} thread(s)", WATCHDOG_SECS, t)));
            "hang".into()
        }
    };
    let idx = ctx.record(op.to_string(), out, nontrivial);
    if let Some((sig, what)) = verdict {
        ctx.fail(idx, sig, what);
    }
}

// ------------------------------------------------------------------ generator

fn too_many_hangs(ctx: &Ctx) -> bool {
    ctx.hist.get("hang").copied().unwrap_or(0) >= MAX_HANGS
}

const SHAPES: [&str; 8] = ["ones", "small", "wide", "sparse", "skewed", "zeros", "gradient", "heavy_line"];

/// Weights of a grid (`dims` padded to 3 sides) in one of the shapes of `SHAPES`.
fn gen_weights(rng: &mut Rng, dims: &[usize], shape: usize) -> Vec<i64> {
    let mut d3 = [1usize; 3];
    d3[..dims.len()].copy_from_slice(dims);
    let n: usize = d3.iter().product();
    let pos = |i: usize| [i % d3[0], (i / d3[0]) % d3[1], i / d3[0] / d3[1]];
    match shape {
        0 => vec![1; n],
        1 => (0..n).map(|_| rng.range(0, 9)).collect(),
        2 => (0..n).map(|_| rng.range(0, 1_000_000)).collect(),
        3 => (0..n).map(|_| if rng.chance(9, 10) { 0 } else { rng.range(1, 100) }).collect(),
        4 => {
            let mut v: Vec<i64> = (0..n).map(|_| rng.range(0, 9)).collect();
            let k = rng.usize(n);
            v[k] = rng.range(1_000_000, 1_000_000_000);
            v
        }
        5 => vec![0; n],
        6 => {
            // grows with one coordinate
            let a = rng.usize(dims.len());
            let step = rng.range(1, 50);
            let noise = rng.range(0, 3);
            (0..n).map(|i| pos(i)[a] as i64 * step + rng.range(0, noise)).collect()
        }
        _ => {
            // one heavy row / column / plane
            let a = rng.usize(dims.len());
            let line = rng.usize(d3[a]);
            let heavy = rng.range(100, 100_000);
            (0..n).map(|i| if pos(i)[a] == line { heavy + rng.range(0, 9) } else { rng.range(0, 3) }).collect()
        }
    }
}

fn run_rcb_case(ctx: &mut Ctx, t: usize, float: bool, dims: &[usize], iter: usize, ws: &[i64]) {
    let op = rcb_op(t, float, dims, iter, ws);
    run_op(ctx, &op);
}

fn rcb_op(t: usize, float: bool, dims: &[usize], iter: usize, ws: &[i64]) -> String {
    fmt_rcb(t, float, dims, iter, dims.iter().product(), ws)
}

fn fixed_cases(ctx: &mut Ctx) {
    let mut ops: Vec<String> = vec![];
    // D4 witnesses: a single-threaded pool used to spin for ever (one chunk, no progress)
    ops.push(rcb_op(1, false, &[4, 4], 2, &[1; 16]));
    ops.push(rcb_op(1, false, &[2, 2], 1, &[1; 4]));
    ops.push(fmt_med(1, false, 16, &[4, 4, 4, 4]));
    for t in [1, 2, 3] {
        // 1x1 and 1x1x1 grids
        for iter in 0..=3 {
            for w in [0, 1, 7] {
                ops.push(rcb_op(t, false, &[1, 1], iter, &[w]));
                ops.push(rcb_op(t, true, &[1, 1], iter, &[w]));
                ops.push(rcb_op(t, false, &[1, 1, 1], iter, &[w]));
            }
        }
        // all-zero weights
        for iter in 0..=3 {
            ops.push(rcb_op(t, false, &[3, 3], iter, &[0; 9]));
            ops.push(rcb_op(t, true, &[4, 2], iter, &[0; 8]));
            ops.push(rcb_op(t, false, &[2, 2, 2], iter, &[0; 8]));
            ops.push(rcb_op(t, false, &[1, 5], iter, &[0; 5]));
        }
        // more iterations than the grid has cells to separate
        ops.push(rcb_op(t, false, &[2, 1], 6, &[1, 1]));
        ops.push(rcb_op(t, false, &[1, 3], 6, &[1, 1, 1]));
        ops.push(rcb_op(t, true, &[1, 3], 6, &[2, 0, 1]));
        ops.push(rcb_op(t, false, &[2, 2, 2], 6, &[1; 8]));
        ops.push(rcb_op(t, false, &[3, 1, 2], 6, &[1, 2, 3, 4, 5, 6]));
        // the repository's own examples (2x2 and 4x4x4 unit weights)
        ops.push(rcb_op(t, true, &[2, 2], 2, &[1; 4]));
        ops.push(rcb_op(t, true, &[4, 4, 4], 3, &[1; 64]));
    }
    // D4-like shapes at every pool size: long axes of equal slabs
    for &t in &THREADS {
        ops.push(rcb_op(t, false, &[4, 4], 2, &[1; 16]));
        ops.push(rcb_op(t, false, &[1, 16], 4, &[1; 16]));
        ops.push(rcb_op(t, false, &[16, 1], 4, &[1; 16]));
        ops.push(fmt_med(t, false, 64, &[1; 64]));
        ops.push(fmt_med(t, true, 64, &[1; 64]));
        ops.push(fmt_med(t, false, 0, &[]));
        ops.push(fmt_med(t, false, 5, &[5]));
        ops.push(fmt_med(t, false, 3, &[2, 1]));
    }
    for op in ops {
        if too_many_hangs(ctx) {
            return;
        }
        ctx.count("fixed_cases");
        run_op(ctx, &op);
    }
}

/// Next vector over `{0,1,2}` in odometer order; `false` after the last one.
fn next_vector(v: &mut [i64]) -> bool {
    for x in v.iter_mut() {
        if *x < 2 {
            *x += 1;
            return true;
        }
        *x = 0;
    }
    false
}

/// Every weight vector over `{0,1,2}` on the grid `w x h`, each with every iteration count
/// of `iters` and every pool size of `threads` (`one_combo` = false) or with one pair drawn
/// from the PRNG (`one_combo` = true); `float_every` = run mode `f` too on every k-th vector.
fn exhaustive_grid(
    ctx: &mut Ctx,
    w: usize,
    h: usize,
    iters: &[usize],
    threads: &[usize],
    one_combo: bool,
    float_every: usize,
) -> u64 {
    let mut v = vec![0i64; w * h];
    let mut count = 0u64;
    let mut k = 0usize;
    loop {
        let float_too = k % float_every == 0;
        if one_combo {
            // iteration counts 2 and 3 (both coordinates cut) twice as likely as 0 and 1
            let iter = *ctx.rng.pick(&[0usize, 1, 2, 2, 3, 3]);
            let t = *ctx.rng.pick(threads);
            run_rcb_case(ctx, t, false, &[w, h], iter, &v);
            count += 1;
            if float_too {
                run_rcb_case(ctx, t, true, &[w, h], iter, &v);
                count += 1;
            }
        } else {
            for &iter in iters {
                for &t in threads {
                    run_rcb_case(ctx, t, false, &[w, h], iter, &v);
                    count += 1;
                    if float_too {
                        run_rcb_case(ctx, t, true, &[w, h], iter, &v);
                        count += 1;
                    }
                }
            }
        }
        k += 1;
        if too_many_hangs(ctx) || !next_vector(&mut v) {
            return count;
        }
    }
}

fn exhaustive(ctx: &mut Ctx) {
    let iters = [0usize, 1, 2, 3];
    // pool sizes 1 and 2 give the same chunking (`max(2, T)` chunks), 3 differs from them
    // on axes of 4 slabs
    let threads = [1usize, 2, 3];
    // cells <= full_cells: every vector x every (iter, T); cells <= vec_cells: every vector with
    // one drawn (iter, T); beyond: `per_grid` random vectors with a drawn (iter, T)
    let (full_cells, vec_cells) = if ctx.quick() { (6, 9) } else { (9, 9) };
    let per_grid = ctx.budget(4000, 200_000);
    let (mut full, mut onec, mut sampled) = (vec![], vec![], vec![]);
    let (mut n_full, mut n_onec, mut n_sampled) = (0u64, 0u64, 0u64);
    for w in 1..=4usize {
        for h in 1..=4usize {
            let cells = w * h;
            let float_every = if cells <= 4 { 1 } else { 9 };
            if cells <= full_cells {
                let c = exhaustive_grid(ctx, w, h, &iters, &threads, false, float_every);
                *ctx.hist.entry(format!("exhaustive_{}x{}", w, h)).or_insert(0) += c;
                n_full += c;
                full.push(format!("{}x{}", w, h));
            } else if cells <= vec_cells {
                let c = exhaustive_grid(ctx, w, h, &iters, &threads, true, float_every);
                *ctx.hist.entry(format!("every_vector_{}x{}", w, h)).or_insert(0) += c;
                n_onec += c;
                onec.push(format!("{}x{}", w, h));
            } else {
                for _ in 0..per_grid {
                    let v: Vec<i64> = (0..cells).map(|_| ctx.rng.range(0, 2)).collect();
                    let iter = *ctx.rng.pick(&[0usize, 1, 2, 2, 3, 3]);
                    let t = *ctx.rng.pick(&threads);
                    let float = ctx.rng.chance(1, 8);
                    run_rcb_case(ctx, t, float, &[w, h], iter, &v);
                    ctx.count(&format!("sampled_{}x{}", w, h));
                    n_sampled += 1;
                    if too_many_hangs(ctx) {
                        return;
                    }
                }
                sampled.push(format!("{}x{}", w, h));
            }
            if too_many_hangs(ctx) {
                return;
            }
        }
    }
    let mut note = format!(
        "exhaustive sub-space: 2-D grids [{}] x EVERY weight vector over {{0,1,2}} x iter_count 0..=3 x pool sizes {{1,2,3}} with i64 weights, \
         and again with f64 weights for every vector on grids of at most 4 cells / every 9th vector on larger ones ({} cases).",
        full.join(" "),
        n_full
    );
    if !onec.is_empty() {
        note.push_str(&format!(
            " Grids [{}]: EVERY weight vector over {{0,1,2}}, each with one (iter_count, pool size) drawn from 0..=3 x {{1,2,3}} ({} cases).",
            onec.join(" "),
            n_onec
        ));
    }
    if !sampled.is_empty() {
        note.push_str(&format!(
            " Grids [{}]: {} random vectors over {{0,1,2}} each, drawn (iter_count, pool size), 1/8 of them f64 ({} cases).",
            sampled.join(" "),
            per_grid,
            n_sampled
        ));
    }
    ctx.notes.push(note);
}

/// A side length in `1..=max`, biased toward small values.
fn side(rng: &mut Rng, max: usize) -> usize {
    match rng.usize(10) {
        0..=3 => 1 + rng.usize(max.min(4)),
        4..=6 => 1 + rng.usize(max.min(10)),
        _ => 1 + rng.usize(max),
    }
}

fn random_rcb(ctx: &mut Ctx) {
    let n = ctx.budget(600, 30000);
    for _ in 0..n {
        if too_many_hangs(ctx) {
            return;
        }
        let three_d = ctx.rng.chance(1, 3);
        let dims: Vec<usize> = if three_d {
            match ctx.rng.usize(8) {
                // a line or a plane in 3-D
                0 => {
                    let mut d = vec![1, 1, 1];
                    d[ctx.rng.usize(3)] = 1 + ctx.rng.usize(10);
                    d
                }
                1 => {
                    let mut d = vec![side(&mut ctx.rng, 10), side(&mut ctx.rng, 10), side(&mut ctx.rng, 10)];
                    d[ctx.rng.usize(3)] = 1;
                    d
                }
                _ => vec![side(&mut ctx.rng, 10), side(&mut ctx.rng, 10), side(&mut ctx.rng, 10)],
            }
        } else {
            match ctx.rng.usize(8) {
                // extreme aspect ratios
                0 => vec![1, 1 + ctx.rng.usize(40)],
                1 => vec![1 + ctx.rng.usize(40), 1],
                2 => vec![1 + ctx.rng.usize(2), 20 + ctx.rng.usize(21)],
                3 => vec![20 + ctx.rng.usize(21), 1 + ctx.rng.usize(2)],
                _ => vec![side(&mut ctx.rng, 40), side(&mut ctx.rng, 40)],
            }
        };
        let shape = ctx.rng.usize(SHAPES.len());
        let ws = gen_weights(&mut ctx.rng, &dims, shape);
        let iter = ctx.rng.usize(7);
        let t = *ctx.rng.pick(&THREADS);
        let float = ctx.rng.chance(1, 4);
        ctx.count(&format!("rcb{}_shape_{}", dims.len(), SHAPES[shape]));
        ctx.count(&format!("rcb_T_{}", t));
        ctx.count(&format!("rcb_iter_{}", iter));
        ctx.count(if float { "rcb_mode_f" } else { "rcb_mode_i" });
        let glen: usize = dims.iter().product();
        ctx.count(match glen {
            1 => "rcb_cells_1",
            2..=16 => "rcb_cells_2..16",
            17..=128 => "rcb_cells_17..128",
            _ => "rcb_cells_129..1600",
        });
        run_rcb_case(ctx, t, float, &dims, iter, &ws);
    }
}

// ------------------------------------------------------------------ large / corner / reuse stream

const LARGE_SHAPES: [&str; 6] = ["gradient", "plane", "random", "blocks", "sorted_runs", "sparse"];

/// Non-constant weights for large grids. `blocks` / `sorted_runs` are constant inside
/// runs of 4096 / 8192 consecutive memory indices (block-aligned structure).
fn large_weights(rng: &mut Rng, dims: &[usize], shape: usize) -> Vec<i64> {
    let mut d3 = [1usize; 3];
    d3[..dims.len()].copy_from_slice(dims);
    let n: usize = d3.iter().product();
    let pos = |i: usize| [i % d3[0], (i / d3[0]) % d3[1], i / d3[0] / d3[1]];
    match shape {
        0 => (0..n).map(|i| { let p = pos(i); (p[0] + 2 * p[1] + 3 * p[2] + 1) as i64 }).collect(),
        1 => {
            // one dominant row / column / plane
            let a = rng.usize(dims.len());
            let line = rng.usize(d3[a]);
            (0..n).map(|i| if pos(i)[a] == line { 1_000_000 + rng.range(0, 99) } else { rng.range(0, 9) }).collect()
        }
        2 => (0..n).map(|_| rng.range(0, 1000)).collect(),
        3 => (0..n).map(|i| 1 + ((i / 4096) % 5) as i64 * 3).collect(),
        4 => (0..n).map(|i| (i / 8192) as i64).collect(),
        _ => (0..n).map(|_| if rng.chance(49, 50) { 0 } else { rng.range(1, 1000) }).collect(),
    }
}

fn size_class(n: usize) -> &'static str {
    match n {
        0..=4096 => "<=4096",
        4097..=16384 => "4097..16384",
        16385..=65536 => "16385..65536",
        65537..=131072 => "65537..131072",
        _ => ">131072",
    }
}

/// Weighted-median inputs of `n` slabs for the large stream.
fn large_slabs(rng: &mut Rng, n: usize, shape: usize) -> Vec<i64> {
    match shape {
        0 => (0..n).map(|_| rng.range(0, 1000)).collect(),
        1 => vec![1; n],
        // ascending in runs of 4096
        2 => (0..n).map(|i| (i / 4096) as i64 + 1).collect(),
        // the half-weight mark sits in the last partial block of 4096 / 8192 / 65536
        3 => {
            let mut v: Vec<i64> = (0..n).map(|_| rng.range(0, 3)).collect();
            v[n - 1 - rng.usize(n.min(30))] = 100_000_000;
            v
        }
        // … or at a block seam
        4 => {
            let mut v: Vec<i64> = (0..n).map(|_| rng.range(0, 3)).collect();
            let seam = [4096usize, 8192, 16384, 65536].iter().copied().filter(|&b| b < n).last().unwrap_or(0);
            let k = (seam + rng.usize(3)).saturating_sub(1).min(n - 1);
            v[k] = 100_000_000;
            v
        }
        _ => (0..n).map(|i| if i % 4096 == 4095 { 5000 } else { 0 }).collect(),
    }
}

/// Grids above 65 536 cells (not multiples of 65 536), long thin grids with fewer rows than
/// threads, rows of 4096 / 8192 nodes, weighted medians on up to 140 003 slabs, weights near
/// the top of the exact range, and buffer reuse. The compiled model runs 10^5 cells in
/// ~0.1 s, so every case is compared exactly AND checked by the oracle.
fn large_stream(ctx: &mut Ctx) {
    // (sides, pool sizes to draw from)
    let thin: [usize; 3] = [1, 8, 16];
    let any: [usize; 5] = [1, 2, 3, 8, 16];
    let mut grids: Vec<(Vec<usize>, &[usize])> = vec![
        (vec![300, 300], &any),
        (vec![257, 257], &any),
        (vec![45, 45, 45], &any),
        (vec![27, 27, 27], &any),
        (vec![41, 40, 41], &any),
        (vec![20000, 6], &thin),
        (vec![6, 20000], &thin),
        (vec![8193, 3], &thin),
        (vec![3, 8193], &thin),
        (vec![4096, 17], &any),
        (vec![8192, 9], &thin),
        (vec![65548, 1], &thin),
        (vec![1, 70001], &any),
        (vec![2, 2, 16422], &thin),
    ];
    if !ctx.quick() {
        grids.extend([
            (vec![362, 362], &any[..]),
            (vec![131077, 1], &thin[..]),
            (vec![1, 140003], &thin[..]),
            (vec![51, 51, 51], &any[..]),
            (vec![512, 257], &any[..]),
            (vec![16384, 9], &thin[..]),
            (vec![3, 3, 14567], &thin[..]),
        ]);
    }
    let reps = ctx.budget(1, 3);
    for (k, (dims, pools)) in grids.iter().enumerate() {
        for r in 0..reps {
            if too_many_hangs(ctx) {
                return;
            }
            // thorough: every pool size of the list once; quick: one drawn
            let t = if ctx.quick() { *ctx.rng.pick(pools) } else { pools[(r + k) % pools.len()] };
            let shape = if r == 0 { k % LARGE_SHAPES.len() } else { ctx.rng.usize(LARGE_SHAPES.len()) };
            let ws = large_weights(&mut ctx.rng, dims, shape);
            let iter = if r == 0 { 6 - (k % 3) } else { ctx.rng.usize(7) };
            let float = (k + r) % 3 == 1;
            let glen: usize = dims.iter().product();
            ctx.count(&format!("large:rcb_cells_{}", size_class(glen)));
            ctx.count(&format!("large:rcb_shape_{}", LARGE_SHAPES[shape]));
            ctx.count(&format!("large:rcb_T_{}", t));
            if dims.iter().any(|&s| s < t) {
                ctx.count("large:rcb_side_shorter_than_pool");
            }
            run_rcb_case(ctx, t, float, dims, iter, &ws);
        }
    }
    // weighted_median directly, sizes just above / far above block thresholds
    let mut sizes = vec![4097usize, 8193, 16385 + 37, 20001, 65537 + 11, 70001];
    if !ctx.quick() {
        sizes.extend([131077, 140003, 262144 + 5]);
    }
    let per_size = ctx.budget(2, 8);
    for (k, &n) in sizes.iter().enumerate() {
        for r in 0..per_size {
            if too_many_hangs(ctx) {
                return;
            }
            let shape = (k + r) % 6;
            let ws = large_slabs(&mut ctx.rng, n, shape);
            let t = [1usize, 2, 3, 16, 8, 4][(k + 2 * r) % 6];
            let float = (k + r) % 4 == 3;
            let total: i64 = ws.iter().sum();
            ctx.count(&format!("large:med_n_{}", size_class(n)));
            ctx.count(&format!("large:med_T_{}", t));
            run_op(ctx, &fmt_med(t, float, total, &ws));
        }
    }
    // corners: weights near the top of the exact range (totals still fit)
    for r in 0..ctx.budget(4, 40) {
        if too_many_hangs(ctx) {
            return;
        }
        let dims: Vec<usize> = if r % 2 == 0 { vec![5, 3] } else { vec![2, 2, 3] };
        let glen: usize = dims.iter().product();
        let t = *ctx.rng.pick(&THREADS);
        let iter = 1 + ctx.rng.usize(4);
        // (name, unit, float): weights are k * unit with k in 0..=3 (sum of k at most 45)
        let (name, unit, float) = match r % 4 {
            0 => ("corner:f64_total_near_2^52", 1i64 << 46, true),
            1 => ("corner:i64_total_near_2^62", 1i64 << 57, false),
            2 => ("corner:i64_total_near_2^51", 1i64 << 45, false),
            _ => ("corner:f64_total_near_2^53_odd", (1i64 << 47) + 1, true),
        };
        let ws: Vec<i64> = (0..glen).map(|_| ctx.rng.range(0, 3) * unit).collect();
        ctx.count(name);
        run_rcb_case(ctx, t, float, &dims, iter, &ws);
        let slabs: Vec<i64> = (0..3 + ctx.rng.usize(12)).map(|_| ctx.rng.range(0, 3) * unit).collect();
        let total: i64 = slabs.iter().sum();
        ctx.count(name);
        run_op(ctx, &fmt_med(t, float, total, &slabs));
    }
    // corners: exactly 2 and 3 cells / slabs at every pool size, 63..65 slabs, iter 6 on 2^6 cells
    for &t in &THREADS {
        if too_many_hangs(ctx) {
            return;
        }
        for ws in [vec![3i64, 1], vec![1, 3], vec![1, 1, 1], vec![0, 5, 0], vec![2, 0, 2]] {
            ctx.count("corner:two_or_three_cells");
            let total: i64 = ws.iter().sum();
            run_op(ctx, &fmt_med(t, false, total, &ws));
            run_rcb_case(ctx, t, false, &[ws.len(), 1], 2, &ws);
            run_rcb_case(ctx, t, true, &[1, ws.len()], 2, &ws);
        }
        for n in [63usize, 64, 65, 255, 256, 257] {
            ctx.count("corner:slab_count_63..257");
            let ws: Vec<i64> = (0..n).map(|_| ctx.rng.range(0, 9)).collect();
            let total: i64 = ws.iter().sum();
            run_op(ctx, &fmt_med(t, false, total, &ws));
        }
        ctx.count("corner:iter6_on_64_cells");
        let ws: Vec<i64> = (0..64).map(|_| ctx.rng.range(1, 9)).collect();
        run_rcb_case(ctx, t, false, &[8, 8], 6, &ws);
        run_rcb_case(ctx, t, false, &[4, 4, 4], 6, &ws);
    }
    // reuse: the same buffer (and the same pool) for two successive calls
    let mut reuse: Vec<(Vec<usize>, usize, usize)> = vec![
        (vec![7, 5], 6, 2),
        (vec![4, 3, 5], 5, 1),
        (vec![1, 9], 3, 0),
        (vec![300, 300], 6, 3),
        (vec![27, 27, 27], 2, 6),
    ];
    for _ in 0..ctx.budget(6, 120) {
        let d = if ctx.rng.chance(1, 3) {
            vec![side(&mut ctx.rng, 8), side(&mut ctx.rng, 8), side(&mut ctx.rng, 8)]
        } else {
            vec![side(&mut ctx.rng, 30), side(&mut ctx.rng, 30)]
        };
        reuse.push((d, ctx.rng.usize(7), ctx.rng.usize(7)));
    }
    for (dims, iter_a, iter_b) in reuse {
        if too_many_hangs(ctx) {
            return;
        }
        let glen: usize = dims.iter().product();
        let (sa, sb) = (ctx.rng.usize(SHAPES.len()), ctx.rng.usize(SHAPES.len()));
        let (wa, wb) = if glen > 2000 {
            (large_weights(&mut ctx.rng, &dims, sa % 6), large_weights(&mut ctx.rng, &dims, sb % 6))
        } else {
            (gen_weights(&mut ctx.rng, &dims, sa), gen_weights(&mut ctx.rng, &dims, sb))
        };
        let t = *ctx.rng.pick(&THREADS);
        let float = ctx.rng.chance(1, 4);
        ctx.count("reuse");
        if glen > 2000 {
            ctx.count(&format!("large:reuse_cells_{}", size_class(glen)));
        }
        run_op(ctx, &fmt_reuse(t, float, &dims, iter_a, iter_b, &wa, &wb));
    }
    ctx.notes.push(format!(
        "large/corner/reuse stream: {} grids of 19 683 .. {} cells (> 65 536 cells and not multiples of 65 536, \
         thin grids with fewer rows than threads, rows of 4096 / 8192 nodes) x {} draw(s) of (pool, shape, iter_count, mode), \
         weighted_median on {:?} slabs, weights k*2^45 / k*2^46 / k*2^57, 2- and 3-cell grids, buffer reuse; \
         all compared exactly with the model (i64 totals >= 2^53: the model declines, oracle only) and checked by the oracle",
        grids.len(),
        grids.iter().map(|(d, _)| d.iter().product::<usize>()).max().unwrap_or(0),
        reps,
        sizes
    ));
}

// ------------------------------------------------------------------ special values / plumbing / context

fn small_dims(rng: &mut Rng) -> Vec<usize> {
    if rng.chance(1, 3) {
        vec![1 + rng.usize(3), 1 + rng.usize(3), 1 + rng.usize(4)]
    } else {
        match rng.usize(5) {
            0 => vec![1, 2 + rng.usize(9)],
            1 => vec![2 + rng.usize(9), 1],
            _ => vec![1 + rng.usize(6), 1 + rng.usize(6)],
        }
    }
}

fn fmt_scaled(t: usize, e: i32, dims: &[usize], iter: usize, toks: &[Tok]) -> String {
    format!("rcbs{} {} {} {} {} {} {}", dims.len(), t, e, join(dims), iter, toks.len(), join_toks(toks))
}

fn fmt_med_scaled(t: usize, e: i32, total_k: i64, toks: &[Tok]) -> String {
    let mut s = format!("meds {} {} {} {}", t, e, total_k, toks.len());
    if !toks.is_empty() {
        s.push(' ');
        s.push_str(&join_toks(toks));
    }
    s
}

/// `n` weight tokens of one of the special-value classes; returns the class name and the exponent.
fn special_tokens(rng: &mut Rng, n: usize, class: usize) -> (&'static str, i32, Vec<Tok>) {
    // the bit pattern of the subnormal 1e-310 is its multiple of 2^-1074
    let k_1e310 = 1e-310f64.to_bits() as i64;
    let (name, e, mut ks): (&'static str, i32, Vec<i64>) = match class {
        0 => ("multiples_of_5e-324", -1074, (0..n).map(|_| rng.range(0, 3)).collect()),
        1 => ("multiples_of_5e-324_wide", -1074, (0..n).map(|_| rng.range(0, 1000)).collect()),
        2 => ("every_cell_1e-310", -1074, vec![k_1e310; n]),
        3 => ("cells_about_1e-310", -1074, (0..n).map(|_| k_1e310 + rng.range(-1000, 1000)).collect()),
        // subnormal cells, total around the smallest normal 2^-1022 = 2^52 units
        4 => {
            let per = (1i64 << 52) / n as i64;
            ("subnormal_cells_total_about_min_normal", -1074, (0..n).map(|_| per + rng.range(-3, 3)).collect())
        }
        // small multiples of the smallest normal: the thresholds total/2*0.99 fall below it
        5 => ("multiples_of_min_normal", -1022, (0..n).map(|_| rng.range(0, 3)).collect()),
        6 => ("just_above_min_normal", -1021 + rng.range(0, 3) as i32, (0..n).map(|_| rng.range(0, 9)).collect()),
        // a few cells around 5e307..6e307: the total is finite, total * 1.01 is not
        7 => {
            let mut v = vec![0i64; n];
            let big = (8_930_000_000_000_000i64 + rng.range(0, 60_000_000_000_000)) / 3;
            for j in 0..3.min(n) {
                v[(j * 7 + rng.usize(n)) % n] += big;
            }
            for x in v.iter_mut() {
                if *x == 0 {
                    *x = rng.range(0, 2);
                }
            }
            ("cells_about_5e307_total_times_1.01_overflows", 971, v)
        }
        // one cell f64::MAX / 2 = (2^53 - 1) * 2^970, the others zero
        8 => {
            let mut v = vec![0i64; n];
            v[rng.usize(n)] = (1i64 << 53) - 1;
            ("one_cell_f64_MAX_half", 970, v)
        }
        // one cell 2^1023 and small ones next to it
        9 => {
            let mut v: Vec<i64> = (0..n).map(|_| rng.range(0, 5)).collect();
            v[rng.usize(n)] = 1i64 << 52;
            ("one_cell_2^1023", 971, v)
        }
        10 => ("normal_range_tiny_scale", -1000 + rng.range(0, 400) as i32, (0..n).map(|_| rng.range(0, 1000)).collect()),
        11 => ("normal_range_huge_scale", 600 + rng.range(0, 360) as i32, (0..n).map(|_| rng.range(0, 1000)).collect()),
        _ => ("plain_scale_with_negzero", 0, (0..n).map(|_| rng.range(0, 2) * rng.range(0, 9)).collect()),
    };
    // keep the total exactly representable and finite
    while ks.iter().map(|&k| k as i128).sum::<i128>() >= (1i128 << 53) {
        let j = rng.usize(n);
        ks[j] /= 2;
    }
    let mut toks: Vec<Tok> = ks.into_iter().map(Tok::K).collect();
    // signed zeros: an odd or an even number of the zero cells become -0.0
    let zeros: Vec<usize> = (0..n).filter(|&i| toks[i] == Tok::K(0)).collect();
    if !zeros.is_empty() && (class >= 12 || rng.chance(1, 2)) {
        let want = 1 + rng.usize(zeros.len());
        for &i in zeros.iter().take(want) {
            toks[i] = Tok::NegZero;
        }
    }
    (name, e, toks)
}

fn special_stream(ctx: &mut Ctx) {
    // items 1 and 2: signed zeros, subnormal and extreme magnitudes
    let n_cases = ctx.budget(160, 4000);
    for r in 0..n_cases {
        if too_many_hangs(ctx) {
            return;
        }
        let class = r % 13;
        let t = *ctx.rng.pick(&THREADS);
        if r % 3 == 2 {
            let cap = if ctx.rng.chance(1, 4) { 70 } else { 12 };
            let n = 1 + ctx.rng.usize(cap);
            let (name, e, toks) = special_tokens(&mut ctx.rng, n, class);
            let total_k: i64 = toks.iter().map(|t| t.k()).sum();
            ctx.count(&format!("special:{}", name));
            if toks.iter().any(|&t| t == Tok::NegZero) {
                ctx.count("special:negzero");
            }
            run_op(ctx, &fmt_med_scaled(t, e, total_k, &toks));
        } else {
            let dims = if class == 2 && r % 2 == 0 { vec![8, 8] } else { small_dims(&mut ctx.rng) };
            let n: usize = dims.iter().product();
            let (name, e, toks) = special_tokens(&mut ctx.rng, n, class);
            let iter = ctx.rng.usize(5);
            ctx.count(&format!("special:{}", name));
            let nz = toks.iter().filter(|&&t| t == Tok::NegZero).count();
            if nz > 0 {
                ctx.count(if nz % 2 == 1 { "special:negzero_odd_count" } else { "special:negzero_even_count" });
            }
            run_op(ctx, &fmt_scaled(t, e, &dims, iter, &toks));
        }
    }
    // all cells -0.0 (the total itself is a zero of either sign)
    for &t in &[1usize, 3, 16] {
        ctx.count("special:all_cells_negzero");
        run_op(ctx, &fmt_scaled(t, 0, &[3, 2], 2, &[Tok::NegZero; 6]));
        run_op(ctx, &fmt_scaled(t, -1074, &[2, 2, 2], 3, &[Tok::NegZero; 8]));
        run_op(ctx, &fmt_med_scaled(t, 0, 0, &[Tok::NegZero; 5]));
    }
    // item 4: the same integers through every admitted weight type
    let n_cases = ctx.budget(130, 3000);
    for r in 0..n_cases {
        if too_many_hangs(ctx) {
            return;
        }
        let ty = TYPES[r % TYPES.len()];
        let dims: Vec<usize> = if ty == "i64arr" {
            match ctx.rng.usize(7) {
                0 => vec![2, 2],
                1 => vec![3, 2],
                2 => vec![2, 2, 2],
                3 => vec![3, 3],
                4 => vec![4, 2],
                5 => vec![1, 6],
                _ => vec![2, 1, 2],
            }
        } else if ctx.rng.chance(1, 3) {
            vec![1 + ctx.rng.usize(4), 1 + ctx.rng.usize(4), 1 + ctx.rng.usize(4)]
        } else {
            vec![1 + ctx.rng.usize(8), 1 + ctx.rng.usize(8)]
        };
        let n: usize = dims.iter().product();
        let limit = type_limit(ty);
        let hi = (limit / n as i64).clamp(1, 1000);
        let mut ws: Vec<i64> = match ctx.rng.usize(4) {
            0 => vec![1.min(hi); n],
            1 => (0..n).map(|_| if ctx.rng.chance(2, 3) { 0 } else { ctx.rng.range(0, hi) }).collect(),
            _ => (0..n).map(|_| ctx.rng.range(0, hi)).collect(),
        };
        if ctx.rng.chance(1, 5) && limit > 255 {
            // one dominant cell, as large as the type allows together with the others
            let rest: i64 = ws.iter().sum();
            let k = ctx.rng.usize(n);
            ws[k] += (limit - rest).min(1 << 40) / 2;
        }
        let iter = ctx.rng.usize(6);
        let t = *ctx.rng.pick(&THREADS);
        ctx.count(&format!("plumbing:{}", ty));
        run_op(ctx, &format!("rcbt{} {} {} {} {} {} {}", dims.len(), t, ty, join(&dims), iter, n, join(&ws)));
    }
    // item 5: calling context
    let gt = global_threads();
    let reps = ctx.budget(6, 60);
    for r in 0..reps {
        if too_many_hangs(ctx) {
            return;
        }
        for kind in ["global", "join", "scope", "many", "many"] {
            let big = kind == "many" && r % 3 == 0;
            let dims: Vec<usize> = if big {
                vec![60 + ctx.rng.usize(60), 60 + ctx.rng.usize(60)]
            } else if ctx.rng.chance(1, 3) {
                vec![side(&mut ctx.rng, 6), side(&mut ctx.rng, 6), side(&mut ctx.rng, 6)]
            } else {
                vec![side(&mut ctx.rng, 20), side(&mut ctx.rng, 20)]
            };
            let shape = ctx.rng.usize(SHAPES.len());
            let ws = gen_weights(&mut ctx.rng, &dims, shape);
            let iter = ctx.rng.usize(7);
            let float = ctx.rng.chance(1, 3);
            let (t, copies) = match kind {
                "global" => (gt, 1),
                "many" => (*ctx.rng.pick(&[4usize, 16]), *ctx.rng.pick(&[8usize, 16, 32])),
                _ => (*ctx.rng.pick(&THREADS), 1),
            };
            ctx.count(&format!("context:{}", kind));
            if kind == "many" {
                ctx.count(&format!("context:many_T{}_x{}", t, copies));
            }
            run_op(
                ctx,
                &format!("ctx{} {} {} {} {} {} {} {} {}", dims.len(), kind, t, mode_str(float), join(&dims), iter, copies, ws.len(), join(&ws)),
            );
        }
    }
    ctx.notes.push(format!(
        "special/plumbing/context stream: f64 weights k*2^e with e from -1074 (multiples of 5e-324, every cell 1e-310, \
         totals about the smallest normal) to 971 (cells about 5e307 with total*1.01 overflowing, one cell f64::MAX/2, 2^1023), \
         odd and even numbers of -0.0 cells, compared with the +0.0 run, with the unscaled run where every intermediate is \
         normal, with the model (thresholds evaluated at the real magnitude) and checked by the oracle in exact integers of \
         the unit 2^e; weight types {:?} against the i64 / f64 call; calls on the global pool ({} threads), from inside \
         join / scope tasks, and 8..32 concurrent calls on pools of 4 and 16 threads against their sequential results",
        TYPES, gt
    ));
}

/// Item 6, in-process part: the first calls of the run are instantiations in a random order
/// (2-D / 3-D, i64 / f64 / other types, median hooks, global pool).
fn first_calls_shuffled(ctx: &mut Ctx) {
    let mut ops = cold_candidates(ctx);
    ctx.rng.shuffle(&mut ops);
    for op in ops {
        ctx.count("context:first_calls_shuffled");
        run_op(ctx, &op);
    }
}

fn cold_candidates(ctx: &mut Ctx) -> Vec<String> {
    let gt = global_threads();
    let w6: Vec<i64> = (0..6).map(|_| ctx.rng.range(0, 9)).collect();
    let w8: Vec<i64> = (0..8).map(|_| ctx.rng.range(0, 9)).collect();
    let w12: Vec<i64> = (0..12).map(|_| ctx.rng.range(0, 50)).collect();
    let t = *ctx.rng.pick(&THREADS);
    vec![
        rcb_op(t, false, &[3, 2], 2, &w6),
        rcb_op(t, true, &[3, 2], 2, &w6),
        rcb_op(t, false, &[2, 2, 2], 3, &w8),
        rcb_op(t, true, &[2, 2, 2], 3, &w8),
        format!("rcbt2 {} u32 4 3 3 12 {}", t, join(&w12)),
        format!("rcbt3 {} f32 2 2 3 3 12 {}", t, join(&w12)),
        format!("rcbt2 {} u8 2 3 2 6 {}", t, join(&w6)),
        fmt_scaled(t, -1074, &[3, 2], 2, &w6.iter().map(|&k| Tok::K(k)).collect::<Vec<_>>()),
        fmt_med(t, false, w12.iter().sum(), &w12),
        fmt_med(t, true, w12.iter().sum(), &w12),
        format!("ctx2 global {} i 4 3 3 1 12 {}", gt, join(&w12)),
        format!("ctx3 many 4 f 2 2 2 3 8 8 {}", join(&w8)),
    ]
}

/// Item 6, cold-process part: a short sequence of different instantiations is run in a CHILD
/// process (this binary, `replay`), where its first call really is the first call of the
/// process; every output must equal the output of the same op in this (warm) process.
fn cold_sequences(ctx: &mut Ctx) {
    let Ok(exe) = std::env::current_exe() else {
        ctx.count("context:cold_process_unavailable");
        return;
    };
    for s in 0..ctx.budget(3, 10) {
        if too_many_hangs(ctx) {
            return;
        }
        let mut ops = cold_candidates(ctx);
        ctx.rng.shuffle(&mut ops);
        ops.truncate(6);
        let mut warm: Vec<(usize, String)> = vec![];
        for op in &ops {
            let before = ctx.ops.len();
            run_op(ctx, op);
            if ctx.ops.len() == before + 1 {
                warm.push((before, ctx.impl_out[before].clone()));
            }
        }
        if warm.len() != ops.len() {
            return;
        }
        let dir = std::env::temp_dir().join(format!("c10_cold_{}_{}_{}", std::process::id(), ctx.seed, s));
        let _ = std::fs::create_dir_all(&dir);
        let file = dir.join("ops.case");
        let text: String = ops.iter().map(|o| format!("C10 {}\n", o)).collect();
        if let Err(err) = std::fs::write(&file, text) {
            ctx.count("context:cold_process_unavailable");
            ctx.notes.push(format!("cold child process not run: cannot write {:?}: {}", file, err));
            return;
        }
        let child = std::process::Command::new(&exe)
            .args(["replay", "C10", "--ops"])
            .arg(&file)
            .arg("--out")
            .arg(&dir)
            .stdout(std::process::Stdio::null())
            .stderr(std::process::Stdio::null())
            .spawn();
        let mut child = match child {
            Ok(c) => c,
            Err(err) => {
                ctx.count("context:cold_process_unavailable");
                ctx.notes.push(format!("cold child process not run: cannot spawn {:?}: {}", exe, err));
                let _ = std::fs::remove_dir_all(&dir);
                return;
            }
        };
        let t0 = std::time::Instant::now();
        let mut done = false;
        while t0.elapsed() < std::time::Duration::from_secs(180) {
            match child.try_wait() {
                Ok(Some(_)) => {
                    done = true;
                    break;
                }
                Ok(None) => std::thread::sleep(std::time::Duration::from_millis(10)),
                Err(_) => break,
            }
        }
        if !done {
            let _ = child.kill();
            let _ = child.wait();
            ctx.count("context:cold_process_timeout");
            ctx.fail(warm[0].0, "hang", "the cold child process running this sequence did not finish within 180 s".into());
            let _ = std::fs::remove_dir_all(&dir);
            continue;
        }
        let cold = std::fs::read_to_string(dir.join("impl.txt")).unwrap_or_default();
        let cold: Vec<&str> = cold.lines().collect();
        ctx.count("context:cold_process_sequence");
        if cold.len() != warm.len() {
            ctx.fail(
                warm[0].0,
                "process-state-dependent@grid_rcb",
                format!("the cold process produced {} outputs for {} ops", cold.len(), warm.len()),
            );
        } else {
            for (j, (idx, w)) in warm.iter().enumerate() {
                if cold[j] != w {
                    ctx.fail(
                        *idx,
                        "process-state-dependent@grid_rcb",
                        format!(
                            "op {} of a cold process (after {:?}) gives `{}`, in this process `{}`",
                            j,
                            &ops[..j],
                            &cold[j][..cold[j].len().min(120)],
                            &w[..w.len().min(120)]
                        ),
                    );
                }
            }
        }
        let _ = std::fs::remove_dir_all(&dir);
    }
}

fn random_med(ctx: &mut Ctx) {
    let cases = ctx.budget(1500, 40000);
    for _ in 0..cases {
        if too_many_hangs(ctx) {
            return;
        }
        let n = match ctx.rng.usize(10) {
            0..=2 => ctx.rng.usize(4),
            3..=5 => ctx.rng.usize(17),
            _ => ctx.rng.usize(201),
        };
        let shape = ctx.rng.usize(SHAPES.len());
        let mut ws = if n == 0 { vec![] } else { gen_weights(&mut ctx.rng, &[n], shape) };
        let mut float = ctx.rng.chance(1, 4);
        let t = *ctx.rng.pick(&THREADS);
        let mut kind = "plain";
        if n > 0 && ctx.rng.chance(1, 20) {
            // some negative weights (outside the property's quantifier; the model follows them)
            float = false;
            kind = "negative";
            for _ in 0..1 + ctx.rng.usize(3) {
                let k = ctx.rng.usize(n);
                ws[k] = -ctx.rng.range(1, 20);
            }
        }
        let sum: i64 = ws.iter().sum();
        let mut total = sum;
        if ctx.rng.chance(1, 10) {
            kind = if kind == "negative" { "negative" } else { "other_total" };
            total = match ctx.rng.usize(6) {
                0 => 0,
                1 => sum + ctx.rng.range(1, 10),
                2 => sum - ctx.rng.range(1, 10),
                3 => sum * 2 + 1,
                4 => sum / 2,
                _ => sum / 3,
            };
        }
        ctx.count(&format!("med_{}", kind));
        ctx.count(&format!("med_shape_{}", SHAPES[shape]));
        ctx.count(&format!("med_T_{}", t));
        ctx.count(if float { "med_mode_f" } else { "med_mode_i" });
        ctx.count(match n {
            0 => "med_n_0",
            1 => "med_n_1",
            2..=3 => "med_n_2..3",
            4..=16 => "med_n_4..16",
            _ => "med_n_17..200",
        });
        run_op(ctx, &fmt_med(t, float, total, &ws));
    }
}

fn index_maps(ctx: &mut Ctx) {
    let cases = ctx.budget(300, 3000);
    // every cell of two small grids: position_of / index_of are mutually inverse
    for i in 0..12 {
        run_op(ctx, &format!("pos2 4 3 {}", i));
        run_op(ctx, &format!("idx2 4 3 {} {}", i % 4, i / 4));
    }
    for i in 0..24 {
        run_op(ctx, &format!("pos3 2 3 4 {}", i));
        run_op(ctx, &format!("idx3 2 3 4 {} {} {}", i % 2, (i / 2) % 3, i / 6));
    }
    for _ in 0..cases {
        let big = ctx.rng.chance(1, 5);
        let three_d = ctx.rng.chance(1, 2);
        let m = if three_d {
            if big {
                100_000
            } else {
                12
            }
        } else if big {
            1_000_000
        } else {
            50
        };
        let dims: Vec<usize> = (0..if three_d { 3 } else { 2 }).map(|_| 1 + ctx.rng.usize(m)).collect();
        let glen: u64 = dims.iter().map(|&s| s as u64).product();
        let tag = if three_d { "3" } else { "2" };
        match ctx.rng.usize(5) {
            0 | 1 => {
                let i = match ctx.rng.usize(6) {
                    0 => 0,
                    1 => glen - 1,
                    _ => ctx.rng.below(glen),
                };
                ctx.count(&format!("index_pos{}", tag));
                run_op(ctx, &format!("pos{} {} {}", tag, join(&dims), i));
            }
            2 | 3 => {
                let pos: Vec<usize> = dims
                    .iter()
                    .map(|&s| match ctx.rng.usize(6) {
                        0 => 0,
                        1 => s - 1,
                        _ => ctx.rng.usize(s),
                    })
                    .collect();
                ctx.count(&format!("index_idx{}", tag));
                run_op(ctx, &format!("idx{} {} {}", tag, join(&dims), join(&pos)));
            }
            _ => {
                ctx.count(&format!("index_len{}", tag));
                run_op(ctx, &format!("len{} {}", tag, join(&dims)));
            }
        }
    }
}

fn malformed(ctx: &mut Ctx) {
    let cases = ctx.budget(40, 400);
    for _ in 0..cases {
        if too_many_hangs(ctx) {
            return;
        }
        let three_d = ctx.rng.chance(1, 3);
        let dims: Vec<usize> = (0..if three_d { 3 } else { 2 }).map(|_| 1 + ctx.rng.usize(if three_d { 4 } else { 6 })).collect();
        let glen: usize = dims.iter().product();
        let iter = ctx.rng.usize(5);
        let t = *ctx.rng.pick(&THREADS);
        let float = ctx.rng.chance(1, 4);
        let (n, plen, key) = match ctx.rng.usize(5) {
            0 => (ctx.rng.usize(glen), glen, "malformed_weights_short"),
            1 => (glen + 1 + ctx.rng.usize(4), glen, "malformed_weights_long"),
            2 => (glen, ctx.rng.usize(glen), "malformed_partition_short"),
            3 => (glen, glen + 1 + ctx.rng.usize(4), "malformed_partition_long"),
            _ => (ctx.rng.usize(glen + 3), ctx.rng.usize(glen + 3), "malformed_both"),
        };
        let ws: Vec<i64> = (0..n).map(|_| ctx.rng.range(0, 9)).collect();
        ctx.count(key);
        run_op(ctx, &fmt_rcb(t, float, &dims, iter, plen, &ws));
    }
    // unparseable lines
    for op in [
        "rcb2 2 i 0 3 1 0 0",
        "rcb3 2 i 2 0 2 1 0 0",
        "rcb2 2 x 1 1 1 1 1 1",
        "rcb2 2 i 2 2 1 4 4 1 1 1",
        "rcb2 2 i 2 2 1 4 4 1 1 1 1 1",
        "med 2 i 3",
        "med 2 q 3 1 3",
        "rcb4 1 i 1 1 1 1 1 1",
    ] {
        ctx.count("malformed_unparseable");
        run_op(ctx, op);
    }
}

/// INEXACT-WEIGHTS stream: non-dyadic `f64` weights (integers times 0.1, 1/3, 1/997) on SPARSE layouts —
/// all the weight in one column / one line of cells (so that one slab carries its box's whole weight,
/// spread over three or more cells), trailing rows or planes of zeros (the last probed chunk carries no
/// weight), a heavy band next to zeros, random sparse — where two sums of the same numbers taken in
/// different orders differ in the last place. No exact claim about the cuts there; Grid::rcb must still
/// return, without panic, with every cell written and every id below 2^iter (ops `rcbt2|rcbt3 … frac*`).
fn inexact_stream(ctx: &mut Ctx) {
    let n_cases = ctx.budget(240, 6000);
    for c in 0..n_cases {
        if too_many_hangs(ctx) {
            return;
        }
        let three = c % 3 == 2;
        let dims: Vec<usize> = if three {
            vec![1 + ctx.rng.usize(5), 1 + ctx.rng.usize(5), 1 + ctx.rng.usize(5)]
        } else {
            vec![1 + ctx.rng.usize(9), 1 + ctx.rng.usize(9)]
        };
        let n: usize = dims.iter().product();
        let mut ws = vec![0i64; n];
        let shape = ctx.rng.usize(6);
        let hi = *ctx.rng.pick(&[9i64, 50, 3000]);
        // cell index of (x, y, z): x fastest
        let idx = |x: usize, y: usize, z: usize| x + dims[0] * (y + dims[1] * z);
        let (dz, dy) = (if three { dims[2] } else { 1 }, dims[1]);
        match shape {
            0 => {
                // one column (fixed x): every cell of it weighs something
                let x = ctx.rng.usize(dims[0]);
                for z in 0..dz {
                    for y in 0..dy {
                        ws[idx(x, y, z)] = ctx.rng.range(1, hi);
                    }
                }
            }
            1 => {
                // one row / line (fixed y and z)
                let (y, z) = (ctx.rng.usize(dy), ctx.rng.usize(dz));
                for x in 0..dims[0] {
                    ws[idx(x, y, z)] = ctx.rng.range(1, hi);
                }
            }
            2 => {
                // trailing rows (or planes) of zeros, the rows before them heavy
                for z in 0..dz {
                    for y in 0..dy {
                        for x in 0..dims[0] {
                            let last = if three { z + 1 == dz } else { y + 1 == dy };
                            ws[idx(x, y, z)] = if last { 0 } else { ctx.rng.range(0, hi) };
                        }
                    }
                }
            }
            3 => {
                // a heavy band next to light cells
                let y0 = ctx.rng.usize(dy);
                for (i, w) in ws.iter_mut().enumerate() {
                    let y = (i / dims[0]) % dy;
                    *w = if y == y0 { ctx.rng.range(hi / 2 + 1, hi) * 4 } else { ctx.rng.range(0, 2) };
                }
            }
            4 => {
                // random sparse
                for w in ws.iter_mut() {
                    *w = if ctx.rng.usize(3) == 0 { ctx.rng.range(1, hi) } else { 0 };
                }
            }
            _ => {
                for w in ws.iter_mut() {
                    *w = ctx.rng.range(0, hi);
                }
            }
        }
        if ws.iter().all(|&w| w == 0) {
            ws[0] = 1;
        }
        let iter = 1 + ctx.rng.usize(5);
        let t = *ctx.rng.pick(&THREADS);
        let ty = *ctx.rng.pick(&["frac10", "frac3", "frac997"]);
        ctx.count(&format!("inexact:shape{}", shape));
        let op = if three {
            format!("rcbt3 {} {} {} {} {} {} {} {}", t, ty, dims[0], dims[1], dims[2], iter, n, join(&ws))
        } else {
            format!("rcbt2 {} {} {} {} {} {} {}", t, ty, dims[0], dims[1], iter, n, join(&ws))
        };
        run_op(ctx, &op);
    }
    ctx.notes.push("INEXACT-WEIGHTS stream: integers times 0.1, 1/3, 1/997 on sparse layouts (one column, one line, trailing zero rows, heavy band, random sparse), 2-D and 3-D, iter 1..5: termination, no panic, every cell written, ids below 2^iter".to_string());
}

pub fn generate(ctx: &mut Ctx) {
    first_calls_shuffled(ctx);
    fixed_cases(ctx);
    // while the process is still small (spawning a child from a multi-GB parent can fail)
    cold_sequences(ctx);
    if !too_many_hangs(ctx) {
        exhaustive(ctx);
    }
    large_stream(ctx);
    special_stream(ctx);
    random_rcb(ctx);
    random_med(ctx);
    index_maps(ctx);
    malformed(ctx);
    // last, so that the streams above draw what they drew before
    inexact_stream(ctx);
    if too_many_hangs(ctx) {
        ctx.notes.push(format!(
            "generation cut short after {} watchdog timeouts ({} s each)",
            MAX_HANGS, WATCHDOG_SECS
        ));
    }
}

#[cfg(test)]
mod tests {
    use super::*;

    fn sig(r: Result<NodeStats, (&'static str, String)>) -> &'static str {
        match r {
            Ok(_) => "ok",
            Err((s, _)) => s,
        }
    }

    #[test]
    fn oracle_accepts_and_rejects() {
        // 2x2 unit weights, two iterations: first cut along y, then along x
        assert_eq!(sig(rcb_oracle(&[2, 2], 2, false, &[0, 1, 2, 3], &[1; 4])), "ok");
        // first cut along x instead of y: bit 1 varies inside a y-slab
        assert_eq!(sig(rcb_oracle(&[2, 2], 2, false, &[0, 2, 1, 3], &[1; 4])), "not-a-box");
        // checkerboard
        assert_eq!(sig(rcb_oracle(&[2, 2], 1, false, &[0, 1, 1, 0], &[1; 4])), "not-a-box");
        // high side below the low side
        assert_eq!(sig(rcb_oracle(&[1, 4], 1, false, &[1, 1, 0, 0], &[1; 4])), "not-a-box");
        assert_eq!(sig(rcb_oracle(&[2, 2], 1, false, &[0, 0, 2, 2], &[1; 4])), "id-out-of-range");
        assert_eq!(sig(rcb_oracle(&[2, 2], 0, false, &[0, 0, 0, 1], &[1; 4])), "id-out-of-range");
        // 1x6, equal slabs of 10: cut after 1 slab is neither within 1 % nor next to the slab with the mark
        assert_eq!(sig(rcb_oracle(&[1, 6], 1, false, &[0, 1, 1, 1, 1, 1], &[10; 6])), "unbalanced");
        assert_eq!(sig(rcb_oracle(&[1, 6], 1, false, &[0, 0, 0, 1, 1, 1], &[10; 6])), "ok");
        // adjacent to the slab holding the mark (slab 2 spans 20..30, the mark is 30)
        assert_eq!(sig(rcb_oracle(&[1, 6], 1, false, &[0, 0, 1, 1, 1, 1], &[10; 6])), "ok");
        // a dominant slab: cutting on either side of it is all that can be done
        assert_eq!(sig(rcb_oracle(&[1, 3], 1, false, &[0, 1, 1], &[1, 100, 1])), "ok");
        assert_eq!(sig(rcb_oracle(&[1, 3], 1, false, &[0, 0, 1], &[1, 100, 1])), "ok");
        assert_eq!(sig(rcb_oracle(&[1, 3], 1, false, &[1, 1, 1], &[1, 100, 1])), "unbalanced");
        // the second level is checked inside each half: low half cut 1|5 of weight 60
        assert_eq!(
            sig(rcb_oracle(&[6, 2], 2, false, &[0, 1, 1, 1, 1, 1, 2, 2, 2, 3, 3, 3], &[10; 12])),
            "unbalanced"
        );
        assert_eq!(
            sig(rcb_oracle(&[6, 2], 2, false, &[0, 0, 0, 1, 1, 1, 2, 2, 2, 3, 3, 3], &[10; 12])),
            "ok"
        );
        // 3-D: coordinates 1, 2, 0 in turn
        assert_eq!(sig(rcb_oracle(&[2, 2, 2], 3, false, &[0, 1, 4, 5, 2, 3, 6, 7], &[1; 8])), "ok");
        assert_eq!(sig(rcb_oracle(&[2, 2, 2], 3, false, &[0, 1, 2, 3, 4, 5, 6, 7], &[1; 8])), "not-a-box");
        // one unit of slack for integers only: W = 200, L = 98
        assert!(balance_clause(&[98, 102], 1, 1).is_ok());
        assert!(balance_clause(&[97, 0, 0, 103], 1, 1).is_err());
        assert_eq!(sig(rcb_oracle(&[1, 4], 1, true, &[0, 1, 1, 1], &[98, 0, 0, 102])), "unbalanced");
        assert_eq!(sig(rcb_oracle(&[1, 4], 1, false, &[0, 1, 1, 1], &[98, 0, 0, 102])), "ok");
    }

    #[test]
    fn ops_round_trip() {
        let op = fmt_rcb(3, true, &[2, 3], 4, 6, &[1, 2, 3, 4, 5, 6]);
        assert_eq!(op, "rcb2 3 f 2 3 4 6 6 1 2 3 4 5 6");
        assert!(matches!(parse_op(&op), Some(Op::Rcb { t: 3, float: true, iter: 4, plen: 6, .. })));
        assert!(parse_op("rcb2 3 f 0 3 4 6 6 1 2 3 4 5 6").is_none());
        assert!(parse_op("rcb2 3 f 2 3 4 6 6 1 2 3 4 5").is_none());
        assert!(parse_op("rcb2 3 f 2 3 4 6 6 1 2 3 4 5 6 7").is_none());
        assert_eq!(fmt_med(1, false, 0, &[]), "med 1 i 0 0");
        assert!(matches!(parse_op("med 1 i 0 0"), Some(Op::Med { t: 1, float: false, total: 0, .. })));
    }
}
