//! C11 — MultiJagged yields a balanced jagged hierarchy with the requested part count.
//!
//! ops (weights: non-negative integers used as f64; coordinates: integers used as f64):
//!   `mj <D> <threads> <parts> <maxiter> <n> <w…> <coords point-major>`
//!        out: `ok ids <canonically renamed ids>`  (coordinates pairwise distinct on every axis)
//!             `ok loads <sorted part loads>`      (coordinate ties, uniform weights)
//!             `ok ties`                           (coordinate ties, other weights: oracle only)
//!   `split <threads> <den> <k> <m…> <nw> <w…> <np> <perm…>`   hook compute_split_positions,
//!        modifiers m_i/den;  out: `ok pos <positions>`
//!   `scheme <parts> <maxiter>`                                hook partition_scheme; out: `ok <tree>`
//!   `splitmany <len> <k> <p…>`                                hook split_at_mut_many_lens; out: `ok lens <…>`
//!   `axissort <D> <coord> <threads> <n> <coords>`             hook axis_sort; out: `ok perm <…>` | `ok ties`
//! any panic: `panic <file:line: message>`.

use crate::common::*;
use coupe::Partition as _;

// ------------------------------------------------------------------ helpers

fn nums<T: std::str::FromStr>(it: &mut std::str::SplitWhitespace, n: usize) -> Option<Vec<T>> {
    let mut v = Vec::with_capacity(n.min(1 << 20));
    for _ in 0..n {
        v.push(it.next()?.parse().ok()?);
    }
    Some(v)
}

fn tagged<T: std::fmt::Display>(tag: &str, xs: &[T]) -> String {
    let mut s = String::from(tag);
    for x in xs {
        s.push(' ');
        s.push_str(&x.to_string());
    }
    s
}

fn pairwise_distinct(mut v: Vec<i64>) -> bool {
    v.sort_unstable();
    v.windows(2).all(|w| w[0] != w[1])
}

fn canon(ids: &[usize]) -> Vec<usize> {
    let mut map = std::collections::HashMap::new();
    ids.iter()
        .map(|i| {
            let next = map.len();
            *map.entry(*i).or_insert(next)
        })
        .collect()
}

/// The scheme as printed by the hook, reduced to what the oracle needs.
#[derive(Debug, Clone)]
struct Node {
    num_splits: usize,
    num_modifiers: usize,
    /// `None` = `next: None`
    children: Option<Vec<Node>>,
}

impl Node {
    fn is_leaf(&self) -> bool {
        self.num_splits == 0
    }
    fn leaves(&self) -> usize {
        if self.is_leaf() {
            1
        } else {
            self.children.as_ref().map_or(0, |c| c.iter().map(|x| x.leaves()).sum())
        }
    }
    fn depth(&self) -> usize {
        if self.is_leaf() {
            0
        } else {
            1 + self.children.as_ref().map_or(0, |c| c.iter().map(|x| x.depth()).max().unwrap_or(0))
        }
    }
    fn shape_ok(&self) -> bool {
        if self.num_modifiers != self.num_splits + 1 {
            return false;
        }
        if self.is_leaf() {
            return true;
        }
        match &self.children {
            None => false,
            Some(c) => c.len() == self.num_splits + 1 && c.iter().all(|x| x.shape_ok()),
        }
    }
}

fn parse_scheme(s: &str) -> Option<Node> {
    fn node(b: &[u8], i: &mut usize) -> Option<Node> {
        if b.get(*i) != Some(&b'(') {
            return None;
        }
        *i += 1;
        let st = *i;
        while b.get(*i)?.is_ascii_digit() {
            *i += 1;
        }
        let num_splits: usize = std::str::from_utf8(&b[st..*i]).ok()?.parse().ok()?;
        if b.get(*i) != Some(&b' ') || b.get(*i + 1) != Some(&b'[') {
            return None;
        }
        *i += 2;
        let st = *i;
        while *b.get(*i)? != b']' {
            *i += 1;
        }
        let inner = std::str::from_utf8(&b[st..*i]).ok()?;
        let num_modifiers = inner.split_whitespace().count();
        *i += 1;
        let mut children = Some(vec![]);
        loop {
            match b.get(*i)? {
                b')' => {
                    *i += 1;
                    break;
                }
                b' ' => {
                    *i += 1;
                    if b.get(*i) == Some(&b'-') {
                        *i += 1;
                        children = None;
                    } else {
                        let c = node(b, i)?;
                        children.as_mut()?.push(c);
                    }
                }
                _ => return None,
            }
        }
        Some(Node { num_splits, num_modifiers, children })
    }
    let b = s.as_bytes();
    let mut i = 0;
    let n = node(b, &mut i)?;
    if i == b.len() {
        Some(n)
    } else {
        None
    }
}

// ------------------------------------------------------------------ jagged-hierarchy oracle

struct Jag<'a> {
    dim: usize,
    coords: &'a [i64],
    steps: u64,
    budget: u64,
    ambiguous: bool,
}

#[derive(Clone)]
struct Part {
    points: Vec<usize>,
}

impl<'a> Jag<'a> {
    fn c(&self, p: usize, axis: usize) -> i64 {
        self.coords[p * self.dim + axis]
    }

    /// Is there an assignment of the parts to the leaves below `node` that makes the
    /// parts a jagged hierarchy (slabs ordered along `axis`, then the next axis, …)?
    /// `None` = step budget exhausted.
    fn check(&mut self, node: &Node, axis: usize, parts: &[Part]) -> Option<bool> {
        self.steps += 1;
        if self.steps > self.budget {
            return None;
        }
        if parts.is_empty() {
            return Some(true);
        }
        if node.is_leaf() {
            return Some(parts.len() <= 1);
        }
        let Some(children) = node.children.as_ref() else {
            return Some(false);
        };
        if parts.len() > node.leaves() {
            return Some(false);
        }
        // order the parts along the axis
        let mut iv: Vec<(i64, i64, usize)> = parts
            .iter()
            .enumerate()
            .map(|(k, p)| {
                let lo = p.points.iter().map(|&q| self.c(q, axis)).min().unwrap();
                let hi = p.points.iter().map(|&q| self.c(q, axis)).max().unwrap();
                (lo, hi, k)
            })
            .collect();
        iv.sort();
        for w in iv.windows(2) {
            if w[0].0 == w[0].1 && w[1].0 == w[1].1 && w[0].0 == w[1].0 {
                // two parts lying entirely on the same coordinate: their order is free
                self.ambiguous = true;
            }
        }
        let sorted: Vec<Part> = iv.iter().map(|x| parts[x.2].clone()).collect();
        let np = sorted.len();
        // admissible cuts
        let mut prefmax = vec![i64::MIN; np + 1];
        for k in 0..np {
            prefmax[k + 1] = prefmax[k].max(iv[k].1);
        }
        let mut sufmin = vec![i64::MAX; np + 1];
        for k in (0..np).rev() {
            sufmin[k] = sufmin[k + 1].min(iv[k].0);
        }
        let cut_ok: Vec<bool> = (0..=np).map(|k| k == 0 || k == np || prefmax[k] <= sufmin[k]).collect();
        let r = children.len();
        let next_axis = (axis + 1) % self.dim;
        // feasible[j][k]: children j.. can take sorted[k..]
        let mut memo: Vec<Vec<Option<bool>>> = vec![vec![None; np + 1]; r + 1];
        self.feasible(children, next_axis, &sorted, &cut_ok, 0, 0, &mut memo)
    }

    #[allow(clippy::too_many_arguments)]
    fn feasible(
        &mut self,
        children: &[Node],
        next_axis: usize,
        sorted: &[Part],
        cut_ok: &[bool],
        j: usize,
        k: usize,
        memo: &mut Vec<Vec<Option<bool>>>,
    ) -> Option<bool> {
        let np = sorted.len();
        if j == children.len() {
            return Some(k == np);
        }
        if let Some(v) = memo[j][k] {
            return Some(v);
        }
        let cap = children[j].leaves();
        let mut res = false;
        let mut e = k;
        while e <= np && e - k <= cap {
            if cut_ok[e] {
                let rest = self.feasible(children, next_axis, sorted, cut_ok, j + 1, e, memo)?;
                if rest && self.check(&children[j], next_axis, &sorted[k..e])? {
                    res = true;
                    break;
                }
            }
            e += 1;
        }
        memo[j][k] = Some(res);
        Some(res)
    }
}

// ------------------------------------------------------------------ op runners

fn run_mj_impl<const D: usize>(
    threads: usize,
    parts: usize,
    maxiter: usize,
    ws: &[u64],
    coords: &[i64],
) -> Caught<Vec<usize>> {
    let n = ws.len();
    let points: Vec<coupe::PointND<D>> =
        (0..n).map(|p| coupe::PointND::<D>::from_fn(|i, _| coords[p * D + i] as f64)).collect();
    let weights: Vec<f64> = ws.iter().map(|&w| w as f64).collect();
    catch(|| {
        with_pool(threads, || {
            let mut ids = vec![usize::MAX; n];
            coupe::MultiJagged { part_count: parts, max_iter: maxiter }
                .partition(&mut ids, (&points[..], &weights[..]))
                .unwrap();
            ids
        })
    })
}

fn op_mj(ctx: &mut Ctx, op: &str, it: &mut std::str::SplitWhitespace) -> Option<()> {
    let dim: usize = it.next()?.parse().ok()?;
    let threads: usize = it.next()?.parse().ok()?;
    let parts: usize = it.next()?.parse().ok()?;
    let maxiter: usize = it.next()?.parse().ok()?;
    let n: usize = it.next()?.parse().ok()?;
    if !(dim == 2 || dim == 3) || threads == 0 || threads > 64 {
        return None;
    }
    let ws: Vec<u64> = nums(it, n)?;
    let coords: Vec<i64> = nums(it, n * dim)?;
    if it.next().is_some() {
        return None;
    }
    let distinct = (0..dim).all(|c| pairwise_distinct((0..n).map(|p| coords[p * dim + c]).collect()));
    let uniform = ws.windows(2).all(|w| w[0] == w[1]);
    let positive = ws.iter().all(|&w| w > 0);
    let in_quant = positive && n >= 1 && (1..=n).contains(&parts) && (1..=4).contains(&maxiter);
    ctx.count(if in_quant { "mj_in_quantifier" } else { "mj_outside_quantifier" });
    ctx.count(if distinct {
        "mj_cmp_exact_ids"
    } else if uniform {
        "mj_cmp_tie_loads"
    } else {
        "mj_cmp_tie_oracle_only"
    });
    ctx.count(&format!("mj_threads_{}", threads));
    ctx.count(&format!("mj_dim_{}", dim));
    ctx.count(&format!("mj_maxiter_{}", maxiter.min(7)));
    ctx.count(match n {
        0 => "mj_n_0",
        1..=3 => "mj_n_1-3",
        4..=16 => "mj_n_4-16",
        17..=80 => "mj_n_17-80",
        _ => "mj_n_81-400",
    });
    let res = if dim == 2 {
        run_mj_impl::<2>(threads, parts, maxiter, &ws, &coords)
    } else {
        run_mj_impl::<3>(threads, parts, maxiter, &ws, &coords)
    };
    let nontrivial = in_quant && n >= 2 && parts >= 2;
    let mut verdicts: Vec<(&str, String)> = vec![];
    let out = match res {
        Caught::Ok(ids) => {
            // ---- oracle 1: ids
            let mut ids_ok = true;
            if ids.iter().any(|&i| i == usize::MAX) {
                verdicts.push(("mj-unwritten", "an element kept its initial id".into()));
                ids_ok = false;
            } else if let Some(&bad) = ids.iter().find(|&&i| i >= parts) {
                verdicts.push(("mj-id-out-of-range", format!("id {} with part_count {}", bad, parts)));
                ids_ok = false;
            }
            if ids_ok {
                // ---- oracle 2: jagged hierarchy, guided by the real scheme
                let scheme_txt = catch(|| coupe::verif::multi_jagged::partition_scheme(parts, maxiter));
                if let Caught::Ok(txt) = scheme_txt {
                    if let Some(root) = parse_scheme(&txt) {
                        let mut groups: std::collections::BTreeMap<usize, Vec<usize>> = Default::default();
                        for (p, &i) in ids.iter().enumerate() {
                            groups.entry(i).or_default().push(p);
                        }
                        let partsv: Vec<Part> = groups.into_values().map(|points| Part { points }).collect();
                        let mut j = Jag { dim, coords: &coords, steps: 0, budget: 3_000_000, ambiguous: false };
                        match j.check(&root, 0, &partsv) {
                            Some(true) => ctx.count("mj_jagged_confirmed"),
                            Some(false) if j.ambiguous => ctx.count("mj_jagged_inconclusive_ties"),
                            Some(false) => verdicts.push((
                                "mj-not-jagged",
                                format!("no assignment of the {} parts to the scheme's leaves is a jagged hierarchy", partsv.len()),
                            )),
                            None => ctx.count("mj_jagged_inconclusive_budget"),
                        }
                    } else {
                        verdicts.push(("scheme-unparsable", txt.chars().take(200).collect()));
                    }
                }
                // ---- oracle 3: balance (positive weights)
                if positive && n >= 1 && parts >= 1 {
                    let total: i128 = ws.iter().map(|&w| w as i128).sum();
                    let wmax: i128 = *ws.iter().max().unwrap() as i128;
                    let mut loads = vec![0i128; parts];
                    for (p, &i) in ids.iter().enumerate() {
                        loads[i] += ws[p] as i128;
                    }
                    let bound = parts as i128 * (maxiter as i128 + 1) * wmax;
                    let mut worst = 0i128;
                    for (k, &l) in loads.iter().enumerate() {
                        let dev = (parts as i128 * l - total).abs();
                        worst = worst.max(dev);
                        if dev >= bound {
                            verdicts.push((
                                "mj-imbalance",
                                format!(
                                    "part {} load {}: |{}*{} - {}| = {} >= {}*({}+1)*{}",
                                    k, l, parts, l, total, dev, parts, maxiter, wmax
                                ),
                            ));
                            break;
                        }
                    }
                    if in_quant {
                        // how much of the bound is used (in units of parts*wmax), for the evidence
                        let used = worst / (parts as i128 * wmax);
                        ctx.count(&format!("mj_balance_dev_units_{}", used.min(9)));
                    }
                    ctx.count("mj_balance_checked");
                }
            }
            if distinct {
                tagged("ok ids", &canon(&ids))
            } else if uniform {
                let mut loads = vec![0u64; parts.min(1 << 24)];
                for (p, &i) in ids.iter().enumerate() {
                    if i < loads.len() {
                        loads[i] += ws[p];
                    }
                }
                loads.sort_unstable();
                tagged("ok loads", &loads)
            } else {
                "ok ties".to_string()
            }
        }
        Caught::Panic(m) => {
            if parts == 0 {
                ctx.count("mj_expected_panic_parts0");
            } else {
                verdicts.push(("panic", format!("{} [{}]", m, panic_sig(&m))));
            }
            format!("panic {}", m)
        }
        Caught::Hang => {
            verdicts.push(("hang", "watchdog".into()));
            "hang".into()
        }
    };
    let idx = ctx.record(op.to_string(), out, nontrivial);
    for (sig, what) in verdicts {
        ctx.fail(idx, sig, what);
    }
    Some(())
}

fn op_split(ctx: &mut Ctx, op: &str, it: &mut std::str::SplitWhitespace) -> Option<()> {
    let threads: usize = it.next()?.parse().ok()?;
    let den: u64 = it.next()?.parse().ok()?;
    let k: usize = it.next()?.parse().ok()?;
    let mods: Vec<u64> = nums(it, k)?;
    let nw: usize = it.next()?.parse().ok()?;
    let ws: Vec<u64> = nums(it, nw)?;
    let np: usize = it.next()?.parse().ok()?;
    let perm: Vec<usize> = nums(it, np)?;
    if it.next().is_some() || den == 0 || threads == 0 || threads > 64 {
        return None;
    }
    let weights: Vec<f64> = ws.iter().map(|&w| w as f64).collect();
    let modifiers: Vec<f64> = mods.iter().map(|&m| m as f64 / den as f64).collect();
    let wellformed = k >= 1 && perm.iter().all(|&i| i < nw);
    ctx.count(if wellformed { "split_wellformed" } else { "split_malformed" });
    let res = catch(|| {
        with_pool(threads, || coupe::verif::multi_jagged::compute_split_positions(&weights, &perm, &modifiers))
    });
    let mut verdicts: Vec<(&str, String)> = vec![];
    let out = match res {
        Caught::Ok(pos) => {
            if wellformed {
                if pos.len() != k - 1 {
                    verdicts.push(("split-count", format!("{} positions for {} modifiers", pos.len(), k)));
                }
                if pos.windows(2).any(|w| w[0] > w[1]) {
                    verdicts.push(("split-not-monotone", format!("{:?}", pos)));
                }
                if pos.iter().any(|&p| p > np) {
                    verdicts.push(("split-beyond-len", format!("{:?} with len {}", pos, np)));
                }
                if pos.iter().any(|&p| p == np) {
                    ctx.count("split_position_at_end");
                }
                if pos.windows(2).any(|w| w[0] == w[1]) {
                    ctx.count("split_empty_slab");
                }
            }
            tagged("ok pos", &pos)
        }
        Caught::Panic(m) => {
            if wellformed {
                verdicts.push(("panic", format!("{} [{}]", m, panic_sig(&m))));
            }
            format!("panic {}", m)
        }
        Caught::Hang => "hang".into(),
    };
    let idx = ctx.record(op.to_string(), out, wellformed && np >= 2 && k >= 2);
    for (sig, what) in verdicts {
        ctx.fail(idx, sig, what);
    }
    Some(())
}

fn op_scheme(ctx: &mut Ctx, op: &str, it: &mut std::str::SplitWhitespace) -> Option<()> {
    let parts: usize = it.next()?.parse().ok()?;
    let maxiter: usize = it.next()?.parse().ok()?;
    if it.next().is_some() {
        return None;
    }
    // (parts > 1, max_iter = 0) asks for a usize::MAX-element Vec: not exercised
    if maxiter == 0 && parts > 1 {
        return None;
    }
    let res = catch(|| coupe::verif::multi_jagged::partition_scheme(parts, maxiter));
    let mut verdicts: Vec<(&str, String)> = vec![];
    let out = match res {
        Caught::Ok(txt) => {
            match parse_scheme(&txt) {
                None => verdicts.push(("scheme-unparsable", txt.chars().take(200).collect())),
                Some(root) => {
                    if root.leaves() != parts {
                        verdicts.push(("scheme-leaves", format!("{} leaves for {} parts", root.leaves(), parts)));
                    }
                    if root.depth() > maxiter {
                        verdicts.push(("scheme-depth", format!("depth {} > max_iter {}", root.depth(), maxiter)));
                    }
                    if !root.shape_ok() {
                        verdicts.push(("scheme-shape", "child or modifier count differs from num_splits+1".into()));
                    }
                    ctx.count(&format!("scheme_depth_{}", root.depth()));
                    if maxiter >= 1 {
                        // exact integer root: least r with r^maxiter >= parts
                        let mut r = 1u128;
                        while r.pow(maxiter as u32) < parts as u128 {
                            r += 1;
                        }
                        ctx.count(if (root.num_splits + 1) as u128 == r {
                            "scheme_f32_root_is_exact_root"
                        } else {
                            "scheme_f32_root_differs_from_exact_root"
                        });
                    }
                }
            }
            format!("ok {}", txt)
        }
        Caught::Panic(m) => {
            if parts == 0 {
                ctx.count("scheme_expected_panic_parts0");
            } else {
                verdicts.push(("panic", format!("{} [{}]", m, panic_sig(&m))));
            }
            format!("panic {}", m)
        }
        Caught::Hang => "hang".into(),
    };
    let idx = ctx.record(op.to_string(), out, parts >= 2 && maxiter >= 1);
    for (sig, what) in verdicts {
        ctx.fail(idx, sig, what);
    }
    Some(())
}

fn op_splitmany(ctx: &mut Ctx, op: &str, it: &mut std::str::SplitWhitespace) -> Option<()> {
    let len: usize = it.next()?.parse().ok()?;
    let k: usize = it.next()?.parse().ok()?;
    let pos: Vec<usize> = nums(it, k)?;
    if it.next().is_some() || len > 1 << 24 {
        return None;
    }
    let wellformed = pos.windows(2).all(|w| w[0] <= w[1]) && pos.iter().all(|&p| p <= len);
    ctx.count(if wellformed { "splitmany_wellformed" } else { "splitmany_malformed" });
    let res = catch(|| coupe::verif::multi_jagged::split_at_mut_many_lens(len, &pos));
    let mut verdicts: Vec<(&str, String)> = vec![];
    let out = match res {
        Caught::Ok(lens) => {
            if wellformed {
                let mut expect = vec![];
                let mut prev = 0;
                for &p in &pos {
                    expect.push(p - prev);
                    prev = p;
                }
                expect.push(len - prev);
                if lens != expect {
                    verdicts.push(("splitmany-lens", format!("{:?} instead of {:?}", lens, expect)));
                }
            }
            tagged("ok lens", &lens)
        }
        Caught::Panic(m) => {
            if wellformed {
                verdicts.push(("panic", format!("{} [{}]", m, panic_sig(&m))));
            }
            format!("panic {}", m)
        }
        Caught::Hang => "hang".into(),
    };
    let idx = ctx.record(op.to_string(), out, wellformed && k >= 1);
    for (sig, what) in verdicts {
        ctx.fail(idx, sig, what);
    }
    Some(())
}

fn run_axissort<const D: usize>(threads: usize, coord: usize, n: usize, coords: &[i64]) -> Caught<Vec<usize>> {
    let points: Vec<coupe::PointND<D>> =
        (0..n).map(|p| coupe::PointND::<D>::from_fn(|i, _| coords[p * D + i] as f64)).collect();
    catch(|| {
        with_pool(threads, || {
            let mut perm: Vec<usize> = (0..n).collect();
            coupe::verif::rcb::axis_sort::<D>(&points, &mut perm, coord);
            perm
        })
    })
}

fn op_axissort(ctx: &mut Ctx, op: &str, it: &mut std::str::SplitWhitespace) -> Option<()> {
    let dim: usize = it.next()?.parse().ok()?;
    let coord: usize = it.next()?.parse().ok()?;
    let threads: usize = it.next()?.parse().ok()?;
    let n: usize = it.next()?.parse().ok()?;
    if !(dim == 2 || dim == 3) || coord >= dim || threads == 0 || threads > 64 {
        return None;
    }
    let coords: Vec<i64> = nums(it, n * dim)?;
    if it.next().is_some() {
        return None;
    }
    let keys: Vec<i64> = (0..n).map(|p| coords[p * dim + coord]).collect();
    let distinct = pairwise_distinct(keys.clone());
    ctx.count(if distinct { "axissort_distinct" } else { "axissort_ties" });
    let res = if dim == 2 {
        run_axissort::<2>(threads, coord, n, &coords)
    } else {
        run_axissort::<3>(threads, coord, n, &coords)
    };
    let mut verdicts: Vec<(&str, String)> = vec![];
    let out = match res {
        Caught::Ok(perm) => {
            let mut seen = vec![false; n];
            let mut is_perm = perm.len() == n;
            for &i in &perm {
                if i >= n || seen[i] {
                    is_perm = false;
                    break;
                }
                seen[i] = true;
            }
            if !is_perm {
                verdicts.push(("axissort-not-permutation", format!("{:?}", perm)));
            } else if perm.windows(2).any(|w| keys[w[0]] > keys[w[1]]) {
                verdicts.push(("axissort-not-sorted", format!("{:?}", perm)));
            }
            if distinct {
                tagged("ok perm", &perm)
            } else {
                "ok ties".to_string()
            }
        }
        Caught::Panic(m) => {
            verdicts.push(("panic", format!("{} [{}]", m, panic_sig(&m))));
            format!("panic {}", m)
        }
        Caught::Hang => "hang".into(),
    };
    let idx = ctx.record(op.to_string(), out, n >= 2);
    for (sig, what) in verdicts {
        ctx.fail(idx, sig, what);
    }
    Some(())
}

pub fn run_op(ctx: &mut Ctx, op: &str) {
    if ctx.hang_limit_reached() {
        return;
    }
    let mut it = op.split_whitespace();
    let r = match it.next() {
        Some("mj") => op_mj(ctx, op, &mut it),
        Some("split") => op_split(ctx, op, &mut it),
        Some("scheme") => op_scheme(ctx, op, &mut it),
        Some("splitmany") => op_splitmany(ctx, op, &mut it),
        Some("axissort") => op_axissort(ctx, op, &mut it),
        _ => None,
    };
    if r.is_none() {
        ctx.record(op.to_string(), "bad-op".into(), false);
    }
}

// ------------------------------------------------------------------ generator

const THREADS: [usize; 3] = [1, 4, 16];

fn gen_n(ctx: &mut Ctx) -> usize {
    match ctx.rng.usize(20) {
        0 => 1,
        1 => 2,
        2 => 3,
        3..=9 => 4 + ctx.rng.usize(13),
        10..=17 => 17 + ctx.rng.usize(64),
        18 => 81 + ctx.rng.usize(120),
        _ => 201 + ctx.rng.usize(200),
    }
}

/// point-major coordinates; returns (coords, shape name)
fn gen_coords(ctx: &mut Ctx, n: usize, dim: usize) -> (Vec<i64>, &'static str) {
    let mut c = vec![0i64; n * dim];
    let shape = match ctx.rng.usize(20) {
        0..=12 => "distinct",
        13..=14 => "grid",
        15 => "equal",
        16..=17 => "line",
        _ => "cluster",
    };
    match shape {
        "distinct" => {
            for a in 0..dim {
                let mut p: Vec<i64> = (0..n as i64).collect();
                ctx.rng.shuffle(&mut p);
                let scale = 1 + ctx.rng.range(0, 4);
                let shift = ctx.rng.range(-1000, 1000);
                let neg = ctx.rng.chance(1, 3);
                for i in 0..n {
                    let v = p[i] * scale + shift;
                    c[i * dim + a] = if neg { -v } else { v };
                }
            }
        }
        "grid" => {
            let g = 1 + ctx.rng.range(1, 6);
            for x in c.iter_mut() {
                *x = ctx.rng.range(0, g);
            }
        }
        "equal" => {
            let v = ctx.rng.range(-3, 3);
            for x in c.iter_mut() {
                *x = v;
            }
        }
        "line" => {
            // distinct along one axis, constant on the others
            let a0 = ctx.rng.usize(dim);
            let mut p: Vec<i64> = (0..n as i64).collect();
            ctx.rng.shuffle(&mut p);
            for i in 0..n {
                for a in 0..dim {
                    c[i * dim + a] = if a == a0 { p[i] } else { 7 };
                }
            }
        }
        _ => {
            let k = 1 + ctx.rng.usize(4);
            let centres: Vec<Vec<i64>> =
                (0..k).map(|_| (0..dim).map(|_| ctx.rng.range(-100, 100)).collect()).collect();
            for i in 0..n {
                let ce = &centres[ctx.rng.usize(k)];
                for a in 0..dim {
                    c[i * dim + a] = ce[a] + ctx.rng.range(-4, 4);
                }
            }
        }
    }
    (c, shape)
}

fn gen_weights(ctx: &mut Ctx, n: usize) -> (Vec<u64>, &'static str) {
    let shape = match ctx.rng.usize(16) {
        0..=2 => "ones",
        3 => "uniform",
        4..=6 => "small",
        7..=8 => "wide",
        9..=11 => "dominant",
        12..=13 => "heavy_few",
        _ => "geometric",
    };
    let mut w: Vec<u64> = match shape {
        "ones" => vec![1; n],
        "uniform" => vec![ctx.rng.range(2, 1000) as u64; n],
        "small" => (0..n).map(|_| ctx.rng.range(1, 9) as u64).collect(),
        "wide" => (0..n).map(|_| ctx.rng.range(1, 1_000_000) as u64).collect(),
        "dominant" | "heavy_few" => (0..n).map(|_| ctx.rng.range(1, 5) as u64).collect(),
        _ => (0..n).map(|i| 1u64 << (i % 30)).collect(),
    };
    if n > 0 {
        match shape {
            "dominant" => {
                // one element at least as heavy as all the others together (the K4 pattern)
                let s: u64 = w.iter().sum();
                let k = ctx.rng.usize(n);
                w[k] = s + ctx.rng.range(0, 20) as u64;
            }
            "heavy_few" => {
                for _ in 0..1 + ctx.rng.usize(3) {
                    let k = ctx.rng.usize(n);
                    w[k] = ctx.rng.range(10, 200) as u64;
                }
            }
            "geometric" => ctx.rng.shuffle(&mut w),
            _ => {}
        }
    }
    (w, shape)
}

fn fmt_mj(dim: usize, threads: usize, parts: usize, maxiter: usize, ws: &[u64], coords: &[i64]) -> String {
    let mut s = format!("mj {} {} {} {} {}", dim, threads, parts, maxiter, ws.len());
    for w in ws {
        s.push(' ');
        s.push_str(&w.to_string());
    }
    for c in coords {
        s.push(' ');
        s.push_str(&c.to_string());
    }
    s
}

fn fmt_split(threads: usize, den: u64, mods: &[u64], ws: &[u64], perm: &[usize]) -> String {
    format!(
        "split {} {} {} {} {} {} {} {}",
        threads,
        den,
        mods.len(),
        join(mods),
        ws.len(),
        join(ws),
        perm.len(),
        join(perm)
    )
    .split_whitespace()
    .collect::<Vec<_>>()
    .join(" ")
}

pub fn generate(ctx: &mut Ctx) {
    // ---- exhaustive small sub-space: fixed pairwise-distinct layout, all weight vectors over {1,2,5}
    let nmax = if ctx.quick() { 5 } else { 6 };
    let ys = [2i64, 0, 4, 1, 5, 3];
    let alphabet = [1u64, 2, 5];
    for n in 1..=nmax {
        let coords: Vec<i64> = (0..n).flat_map(|i| [i as i64, ys[i]]).collect();
        let mut digits = vec![0usize; n];
        loop {
            let ws: Vec<u64> = digits.iter().map(|&d| alphabet[d]).collect();
            for parts in 1..=n {
                for maxiter in 1..=2 {
                    ctx.count("mj_exhaustive");
                    let op = fmt_mj(2, 1, parts, maxiter, &ws, &coords);
                    run_op(ctx, &op);
                }
            }
            let mut i = 0;
            while i < n {
                if digits[i] + 1 < alphabet.len() {
                    digits[i] += 1;
                    break;
                }
                digits[i] = 0;
                i += 1;
            }
            if i == n {
                break;
            }
        }
    }
    ctx.notes.push(format!(
        "exhaustive sub-space: n = 1..={} points on a fixed pairwise-distinct 2-D layout x all weight vectors over {:?} x parts 1..=n x max_iter 1..=2",
        nmax, alphabet
    ));

    // ---- random mj cases inside the quantifier
    let count = ctx.budget(12000, 150000);
    for _ in 0..count {
        let n = gen_n(ctx);
        let dim = 2 + ctx.rng.usize(2);
        let (coords, cs) = gen_coords(ctx, n, dim);
        let (ws, wsn) = gen_weights(ctx, n);
        let parts = match ctx.rng.usize(8) {
            0 => 1,
            1 => n,
            2 => 1 + ctx.rng.usize(n.min(8)),
            _ => 1 + ctx.rng.usize(n),
        };
        let maxiter = 1 + ctx.rng.usize(4);
        let threads = *ctx.rng.pick(&THREADS);
        ctx.count(&format!("mj_shape_coords_{}", cs));
        ctx.count(&format!("mj_shape_weights_{}", wsn));
        let op = fmt_mj(dim, threads, parts, maxiter, &ws, &coords);
        run_op(ctx, &op);
    }

    // ---- outside the property's quantifier (inside C01's): parts > n, zero weights, n = 0, max_iter 5..6
    let count = ctx.budget(1500, 15000);
    for _ in 0..count {
        let kind = ctx.rng.usize(6);
        let mut n = gen_n(ctx).min(120);
        let dim = 2 + ctx.rng.usize(2);
        if kind == 4 {
            n = 0;
        }
        let (coords, _) = gen_coords(ctx, n, dim);
        let (mut ws, _) = gen_weights(ctx, n);
        let mut parts = 1 + ctx.rng.usize(n.max(1));
        let mut maxiter = 1 + ctx.rng.usize(4);
        match kind {
            0 => {
                parts = n + 1 + ctx.rng.usize(n + 3);
                ctx.count("mj_out_parts_gt_n");
            }
            1 => {
                for w in ws.iter_mut() {
                    if ctx.rng.chance(1, 3) {
                        *w = 0;
                    }
                }
                ctx.count("mj_out_random_zeros");
            }
            2 => {
                // a zero-weight run at the start / middle / end of the order along axis 0
                let mut order: Vec<usize> = (0..n).collect();
                order.sort_by_key(|&i| coords[i * dim]);
                let len = 1 + ctx.rng.usize(n.max(1));
                let start = match ctx.rng.usize(3) {
                    0 => 0,
                    1 => n.saturating_sub(len),
                    _ => ctx.rng.usize(n.saturating_sub(len) + 1),
                };
                for &i in order.iter().skip(start).take(len) {
                    ws[i] = 0;
                }
                ctx.count("mj_out_zero_slab");
            }
            3 => {
                for w in ws.iter_mut() {
                    *w = 0;
                }
                ctx.count("mj_out_all_zero");
            }
            4 => {
                parts = 1 + ctx.rng.usize(4);
                ctx.count("mj_out_n0");
            }
            _ => {
                maxiter = 5 + ctx.rng.usize(2);
                ctx.count("mj_out_maxiter_5_6");
            }
        }
        let threads = *ctx.rng.pick(&THREADS);
        let op = fmt_mj(dim, threads, parts, maxiter, &ws, &coords);
        run_op(ctx, &op);
    }

    // ---- direct: compute_split_positions
    let count = ctx.budget(4000, 40000);
    for _ in 0..count {
        let big = ctx.rng.chance(1, 10);
        let np = match ctx.rng.usize(10) {
            0 => 0,
            1 => 1,
            2 => 2,
            _ => 3 + ctx.rng.usize(if big { 300 } else { 40 }),
        };
        let extra = ctx.rng.usize(4);
        let nw = np + extra;
        let (mut ws, _) = gen_weights(ctx, nw);
        let mut perm: Vec<usize> = (0..nw).collect();
        ctx.rng.shuffle(&mut perm);
        perm.truncate(np);
        let k = 1 + ctx.rng.usize(8);
        let shape = ctx.rng.usize(8);
        let (mods, den): (Vec<u64>, u64) = match shape {
            0..=2 => {
                // like the scheme: `rem` fat parts of q+1, the rest q
                let q = 1 + ctx.rng.usize(5) as u64;
                let rem = ctx.rng.usize(k);
                let m: Vec<u64> = (0..k).map(|i| if i < rem { q + 1 } else { q }).collect();
                let d = m.iter().sum();
                (m, d)
            }
            3 => (vec![1; k], k as u64),
            4 => {
                // do not sum to den (thresholds beyond the total → the slab's end)
                let m: Vec<u64> = (0..k).map(|_| ctx.rng.range(0, 6) as u64).collect();
                (m, 1 + ctx.rng.usize(8) as u64)
            }
            5 => {
                // uniform weights, thresholds that hit prefix sums exactly
                let w = ctx.rng.range(1, 12) as u64;
                for x in ws.iter_mut() {
                    *x = w;
                }
                (vec![1; k], k as u64)
            }
            6 => {
                // zero-weight runs
                let a = ctx.rng.usize(nw + 1);
                let b = ctx.rng.usize(nw + 1);
                for x in ws.iter_mut().take(a.max(b)).skip(a.min(b)) {
                    *x = 0;
                }
                (vec![1; k], k as u64)
            }
            _ => {
                let m: Vec<u64> = (0..k).map(|_| ctx.rng.range(0, 9) as u64).collect();
                let d = m.iter().sum::<u64>().max(1);
                (m, d)
            }
        };
        ctx.count(&format!("split_shape_{}", shape));
        let threads = *ctx.rng.pick(&THREADS);
        let op = fmt_split(threads, den, &mods, &ws, &perm);
        run_op(ctx, &op);
    }
    // malformed: no modifier, permutation entry out of range
    for _ in 0..ctx.budget(20, 100) {
        let nw = 1 + ctx.rng.usize(6);
        let ws: Vec<u64> = (0..nw).map(|_| ctx.rng.range(1, 9) as u64).collect();
        if ctx.rng.chance(1, 2) {
            let perm: Vec<usize> = (0..nw).collect();
            run_op(ctx, &fmt_split(1, 1, &[], &ws, &perm));
        } else {
            let mut perm: Vec<usize> = (0..nw).collect();
            let k = ctx.rng.usize(nw);
            perm[k] = nw + ctx.rng.usize(3);
            run_op(ctx, &fmt_split(1, 2, &[1, 1], &ws, &perm));
        }
    }

    // ---- direct: partition_scheme
    let (pmax, mmax) = if ctx.quick() { (250usize, 4usize) } else { (400, 6) };
    for parts in 1..=pmax {
        for maxiter in 1..=mmax {
            run_op(ctx, &format!("scheme {} {}", parts, maxiter));
        }
    }
    for _ in 0..ctx.budget(40, 400) {
        let parts = 251 + ctx.rng.usize(4750);
        let maxiter = 2 + ctx.rng.usize(3);
        run_op(ctx, &format!("scheme {} {}", parts, maxiter));
    }
    for m in 0..=4 {
        run_op(ctx, &format!("scheme 0 {}", m));
    }
    run_op(ctx, "scheme 1 0");
    ctx.notes.push(format!(
        "partition_scheme compared for every part_count 1..={} x max_iter 1..={} plus random part counts up to 5000",
        pmax, mmax
    ));

    // ---- direct: split_at_mut_many
    for _ in 0..ctx.budget(1000, 10000) {
        let len = ctx.rng.usize(40);
        let k = ctx.rng.usize(7);
        let mut pos: Vec<usize> = (0..k).map(|_| ctx.rng.usize(len + 1)).collect();
        if ctx.rng.chance(5, 6) {
            pos.sort_unstable();
        } else if ctx.rng.chance(1, 2) && k > 0 {
            let j = ctx.rng.usize(k);
            pos[j] = len + 1 + ctx.rng.usize(3);
        }
        run_op(ctx, &format!("splitmany {} {} {}", len, k, join(&pos)).trim_end().to_string());
    }

    // ---- direct: axis_sort
    for _ in 0..ctx.budget(800, 8000) {
        let n = gen_n(ctx);
        let dim = 2 + ctx.rng.usize(2);
        let (coords, _) = gen_coords(ctx, n, dim);
        let coord = ctx.rng.usize(dim);
        let threads = *ctx.rng.pick(&THREADS);
        run_op(ctx, &format!("axissort {} {} {} {} {}", dim, coord, threads, n, join(&coords)).trim_end().to_string());
    }
}

#[cfg(test)]
mod tests {
    use super::*;

    fn jag(parts: usize, maxiter: usize, dim: usize, ids: &[usize], coords: &[i64]) -> Option<bool> {
        let root = parse_scheme(&coupe::verif::multi_jagged::partition_scheme(parts, maxiter)).unwrap();
        let mut groups: std::collections::BTreeMap<usize, Vec<usize>> = Default::default();
        for (p, &i) in ids.iter().enumerate() {
            groups.entry(i).or_default().push(p);
        }
        let partsv: Vec<Part> = groups.into_values().map(|points| Part { points }).collect();
        let mut j = Jag { dim, coords, steps: 0, budget: 1_000_000, ambiguous: false };
        j.check(&root, 0, &partsv)
    }

    /// The oracle is not vacuous: it accepts jagged assignments and rejects others.
    #[test]
    fn jagged_oracle_discriminates() {
        // one split along x: contiguous runs are accepted, interleaved parts are not
        let line = [0, 0, 1, 1, 2, 2, 3, 3];
        assert_eq!(jag(2, 1, 2, &[0, 0, 1, 1], &line), Some(true));
        assert_eq!(jag(2, 1, 2, &[1, 1, 0, 0], &line), Some(true)); // ids are a renaming
        assert_eq!(jag(2, 1, 2, &[0, 1, 0, 1], &line), Some(false));
        // 2 x 2 scheme on 8 points: slabs by x, each cut by y
        //   x: 0 1 2 3 | 4 5 6 7 ; y chosen so that the y-cut inside a slab is clean
        let c = [0, 0, 1, 5, 2, 1, 3, 6, 4, 2, 5, 7, 6, 3, 7, 9];
        assert_eq!(jag(4, 2, 2, &[0, 1, 0, 1, 2, 3, 2, 3], &c), Some(true));
        // a part straddling the x-cut
        assert_eq!(jag(4, 2, 2, &[0, 1, 0, 2, 1, 3, 2, 3], &c), Some(false));
        // parts cut along x inside a slab instead of y (y ranges interleave)
        assert_eq!(jag(4, 2, 2, &[0, 0, 1, 1, 2, 3, 2, 3], &c), Some(false));
        // more parts than leaves
        assert_eq!(jag(2, 1, 2, &[0, 1, 2, 2], &line), Some(false));
        // empty slabs are fine (fewer parts than leaves)
        assert_eq!(jag(4, 2, 2, &[0, 0, 0, 0, 0, 0, 0, 0], &c), Some(true));
    }
}
