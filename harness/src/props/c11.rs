//! C11 — MultiJagged yields a balanced jagged hierarchy with the requested part count.
//!
//! ops (weights: non-negative integers used as f64; coordinates: integers used as f64):
//!   `mj <D> <threads> <parts> <maxiter> <n> <w…> <coords point-major>`
//!        out: `ok ids <canonically renamed ids>`  (coordinates pairwise distinct on every axis)
//!             `ok loads <sorted part loads>`      (coordinate ties, uniform weights)
//!             `ok ties`                           (coordinate ties, other weights: oracle only)
//!   `mjs <scale code> <D> <threads> <parts> <maxiter> <n> <w…> <coords>`   weights times a scale (see SCALES)
//!   `mjx <ctrans> <D> <threads> <parts> <maxiter> <n> <w…> <coords> <nz> <idx…>`  -0.0 at the listed points, coordinate maps
//!   `mjc <pool> <calls> <D|0> <parts> <maxiter> <n> <cshape> <wshape> <seed>`   calling contexts; out: `ok ctx <hash per call>`
//!   `mjl <D> <threads> <parts> <maxiter> <n> <cshape> <wshape> <seed> <cmp>`  large inputs generated from a seed
//!   `split <threads> <den> <k> <m…> <nw> <w…> <np> <perm…>`   hook compute_split_positions,
//!        modifiers m_i/den;  out: `ok pos <positions>`
//!   `scheme <parts> <maxiter>`                                hook partition_scheme; out: `ok <tree>`
//!   `splitmany <len> <k> <p…>`                                hook split_at_mut_many_lens; out: `ok lens <…>`
//!   `axissort <D> <coord> <threads> <n> <coords>`             hook axis_sort; out: `ok perm <…>` | `ok ties`
//! any panic: `panic <file:line: message>`.

use crate::common::*;
use coupe::Partition as _;

// ------------------------------------------------------------------ helpers

fn nums<T: std::str::FromStr>(it: &mut std::str::SplitWhitespace, n: usize) -> Option<Vec<T>> {
    let mut v = Vec::with_capacity(n.min(1 << 20));
    for _ in 0..n {
        v.push(it.next()?.parse().ok()?);
    }
    Some(v)
}

fn tagged<T: std::fmt::Display>(tag: &str, xs: &[T]) -> String {
    let mut s = String::from(tag);
    for x in xs {
        s.push(' ');
        s.push_str(&x.to_string());
    }
    s
}

fn pairwise_distinct(mut v: Vec<i64>) -> bool {
    v.sort_unstable();
    v.windows(2).all(|w| w[0] != w[1])
}

fn canon(ids: &[usize]) -> Vec<usize> {
    let mut map = std::collections::HashMap::new();
    ids.iter()
        .map(|i| {
            let next = map.len();
            *map.entry(*i).or_insert(next)
        })
        .collect()
}

/// The scheme as printed by the hook, reduced to what the oracle needs.
#[derive(Debug, Clone)]
struct Node {
    num_splits: usize,
    num_modifiers: usize,
    /// `None` = `next: None`
    children: Option<Vec<Node>>,
}

impl Node {
    fn is_leaf(&self) -> bool {
        self.num_splits == 0
    }
    fn leaves(&self) -> usize {
        if self.is_leaf() {
            1
        } else {
            self.children.as_ref().map_or(0, |c| c.iter().map(|x| x.leaves()).sum())
        }
    }
    fn depth(&self) -> usize {
        if self.is_leaf() {
            0
        } else {
            1 + self.children.as_ref().map_or(0, |c| c.iter().map(|x| x.depth()).max().unwrap_or(0))
        }
    }
    /// largest sum of `num_splits` along a root-to-leaf path
    fn max_path_splits(&self) -> usize {
        if self.is_leaf() {
            0
        } else {
            self.num_splits
                + self.children.as_ref().map_or(0, |c| c.iter().map(|x| x.max_path_splits()).max().unwrap_or(0))
        }
    }
    fn shape_ok(&self) -> bool {
        if self.num_modifiers != self.num_splits + 1 {
            return false;
        }
        if self.is_leaf() {
            return true;
        }
        match &self.children {
            None => false,
            Some(c) => c.len() == self.num_splits + 1 && c.iter().all(|x| x.shape_ok()),
        }
    }
}

fn parse_scheme(s: &str) -> Option<Node> {
    fn node(b: &[u8], i: &mut usize) -> Option<Node> {
        if b.get(*i) != Some(&b'(') {
            return None;
        }
        *i += 1;
        let st = *i;
        while b.get(*i)?.is_ascii_digit() {
            *i += 1;
        }
        let num_splits: usize = std::str::from_utf8(&b[st..*i]).ok()?.parse().ok()?;
        if b.get(*i) != Some(&b' ') || b.get(*i + 1) != Some(&b'[') {
            return None;
        }
        *i += 2;
        let st = *i;
        while *b.get(*i)? != b']' {
            *i += 1;
        }
        let inner = std::str::from_utf8(&b[st..*i]).ok()?;
        let num_modifiers = inner.split_whitespace().count();
        *i += 1;
        let mut children = Some(vec![]);
        loop {
            match b.get(*i)? {
                b')' => {
                    *i += 1;
                    break;
                }
                b' ' => {
                    *i += 1;
                    if b.get(*i) == Some(&b'-') {
                        *i += 1;
                        children = None;
                    } else {
                        let c = node(b, i)?;
                        children.as_mut()?.push(c);
                    }
                }
                _ => return None,
            }
        }
        Some(Node { num_splits, num_modifiers, children })
    }
    let b = s.as_bytes();
    let mut i = 0;
    let n = node(b, &mut i)?;
    if i == b.len() {
        Some(n)
    } else {
        None
    }
}

// ------------------------------------------------------------------ jagged-hierarchy oracle

/// Search state of the jagged-hierarchy oracle. Parts are dense indices; only their
/// bounding intervals per axis are needed (computed once, O(n·D)).
struct Jag {
    dim: usize,
    lo: Vec<i64>,
    hi: Vec<i64>,
    steps: u64,
    budget: u64,
    ambiguous: bool,
}

impl Jag {
    /// `ids[p] < parts` for every point. Returns the oracle state and the list of used parts.
    fn new(dim: usize, coords: &[i64], ids: &[usize], parts: usize, budget: u64) -> (Jag, Vec<usize>) {
        let mut lo = vec![i64::MAX; parts * dim];
        let mut hi = vec![i64::MIN; parts * dim];
        let mut used = vec![false; parts];
        for (p, &i) in ids.iter().enumerate() {
            used[i] = true;
            for a in 0..dim {
                let c = coords[p * dim + a];
                lo[i * dim + a] = lo[i * dim + a].min(c);
                hi[i * dim + a] = hi[i * dim + a].max(c);
            }
        }
        let list: Vec<usize> = (0..parts).filter(|&k| used[k]).collect();
        (Jag { dim, lo, hi, steps: 0, budget, ambiguous: false }, list)
    }

    /// Is there an assignment of the parts to the leaves below `node` that makes the
    /// parts a jagged hierarchy (slabs ordered along `axis`, then the next axis, …)?
    /// `None` = step budget exhausted.
    fn check(&mut self, node: &Node, axis: usize, parts: &[usize]) -> Option<bool> {
        self.steps += 1;
        if self.steps > self.budget {
            return None;
        }
        if parts.is_empty() {
            return Some(true);
        }
        if node.is_leaf() {
            return Some(parts.len() <= 1);
        }
        let Some(children) = node.children.as_ref() else {
            return Some(false);
        };
        if parts.len() > node.leaves() {
            return Some(false);
        }
        // order the parts along the axis
        let mut iv: Vec<(i64, i64, usize)> =
            parts.iter().map(|&k| (self.lo[k * self.dim + axis], self.hi[k * self.dim + axis], k)).collect();
        iv.sort();
        for w in iv.windows(2) {
            if w[0].0 == w[0].1 && w[1].0 == w[1].1 && w[0].0 == w[1].0 {
                // two parts lying entirely on the same coordinate: their order is free
                self.ambiguous = true;
            }
        }
        let sorted: Vec<usize> = iv.iter().map(|x| x.2).collect();
        let np = sorted.len();
        // admissible cuts
        let mut prefmax = vec![i64::MIN; np + 1];
        for k in 0..np {
            prefmax[k + 1] = prefmax[k].max(iv[k].1);
        }
        let mut sufmin = vec![i64::MAX; np + 1];
        for k in (0..np).rev() {
            sufmin[k] = sufmin[k + 1].min(iv[k].0);
        }
        let cut_ok: Vec<bool> = (0..=np).map(|k| k == 0 || k == np || prefmax[k] <= sufmin[k]).collect();
        let r = children.len();
        let next_axis = (axis + 1) % self.dim;
        // feasible[j][k]: children j.. can take sorted[k..]
        let mut memo: Vec<Vec<Option<bool>>> = vec![vec![None; np + 1]; r + 1];
        self.feasible(children, next_axis, &sorted, &cut_ok, 0, 0, &mut memo)
    }

    #[allow(clippy::too_many_arguments)]
    fn feasible(
        &mut self,
        children: &[Node],
        next_axis: usize,
        sorted: &[usize],
        cut_ok: &[bool],
        j: usize,
        k: usize,
        memo: &mut Vec<Vec<Option<bool>>>,
    ) -> Option<bool> {
        let np = sorted.len();
        if j == children.len() {
            return Some(k == np);
        }
        if let Some(v) = memo[j][k] {
            return Some(v);
        }
        let cap = children[j].leaves();
        let mut res = false;
        let mut e = k;
        while e <= np && e - k <= cap {
            if cut_ok[e] {
                let rest = self.feasible(children, next_axis, sorted, cut_ok, j + 1, e, memo)?;
                if rest && self.check(&children[j], next_axis, &sorted[k..e])? {
                    res = true;
                    break;
                }
            }
            e += 1;
        }
        memo[j][k] = Some(res);
        Some(res)
    }
}

// ------------------------------------------------------------------ op runners

/// The property oracle on one implementation output (independent of any model):
/// ids below `parts`, the parts are a jagged hierarchy for the real scheme, balance bound.
/// O(n·D + search over the parts).
#[allow(clippy::too_many_arguments)]
fn oracle_mj(
    ctx: &mut Ctx,
    dim: usize,
    coords: &[i64],
    ws: &[u64],
    ids: &[usize],
    parts: usize,
    maxiter: usize,
    in_quant: bool,
    verdicts: &mut Vec<(&'static str, String)>,
) {
    let n = ws.len();
    let positive = ws.iter().all(|&w| w > 0);
    // ---- oracle 1: ids
    if ids.iter().any(|&i| i == usize::MAX) {
        verdicts.push(("mj-unwritten", "an element kept its initial id".into()));
        return;
    } else if let Some(&bad) = ids.iter().find(|&&i| i >= parts) {
        verdicts.push(("mj-id-out-of-range", format!("id {} with part_count {}", bad, parts)));
        return;
    }
    // ---- oracle 2: jagged hierarchy, guided by the real scheme
    let scheme_txt = catch(|| coupe::verif::multi_jagged::partition_scheme(parts, maxiter));
    if let Caught::Ok(txt) = scheme_txt {
        if let Some(root) = parse_scheme(&txt) {
            let (mut j, used) = Jag::new(dim, coords, ids, parts, 3_000_000);
            match j.check(&root, 0, &used) {
                Some(true) => ctx.count("mj_jagged_confirmed"),
                Some(false) if j.ambiguous => ctx.count("mj_jagged_inconclusive_ties"),
                Some(false) => verdicts.push((
                    "mj-not-jagged",
                    format!("no assignment of the {} parts to the scheme's leaves is a jagged hierarchy", used.len()),
                )),
                None => ctx.count("mj_jagged_inconclusive_budget"),
            }
        } else {
            verdicts.push(("scheme-unparsable", txt.chars().take(200).collect()));
        }
    }
    // ---- oracle 3: balance (positive weights)
    if positive && n >= 1 && parts >= 1 {
        let total: i128 = ws.iter().map(|&w| w as i128).sum();
        let wmax: i128 = *ws.iter().max().unwrap() as i128;
        let mut loads = vec![0i128; parts];
        for (p, &i) in ids.iter().enumerate() {
            loads[i] += ws[p] as i128;
        }
        let bound = parts as i128 * (maxiter as i128 + 1) * wmax;
        let mut worst = 0i128;
        for (k, &l) in loads.iter().enumerate() {
            let dev = (parts as i128 * l - total).abs();
            worst = worst.max(dev);
            if dev >= bound {
                verdicts.push((
                    "mj-imbalance",
                    format!(
                        "part {} load {}: |{}*{} - {}| = {} >= {}*({}+1)*{}",
                        k, l, parts, l, total, dev, parts, maxiter, wmax
                    ),
                ));
                break;
            }
        }
        if in_quant {
            // how much of the bound is used (in units of parts*wmax), for the evidence
            let used = worst / (parts as i128 * wmax);
            ctx.count(&format!("mj_balance_dev_units_{}", used.min(9)));
        }
        ctx.count("mj_balance_checked");
    }
}

/// History independence: the same algorithm value used on another input first, and an id
/// buffer left over from a call with more parts, must give the same partition as a fresh run.
fn reuse_run<const D: usize>(
    threads: usize,
    parts: usize,
    maxiter: usize,
    weights: &[f64],
    points: &[coupe::PointND<D>],
) -> Caught<Vec<usize>> {
    let n = weights.len();
    catch(|| {
        with_pool(threads, || {
            let mut alg = coupe::MultiJagged { part_count: parts, max_iter: maxiter };
            // another input first: the first half of the points
            let h = n / 2;
            let mut tmp = vec![0usize; h];
            alg.partition(&mut tmp, (&points[..h], &weights[..h])).unwrap();
            // a buffer left over from a call with more parts
            let mut ids = vec![usize::MAX; n];
            coupe::MultiJagged { part_count: 2 * parts + 1, max_iter: maxiter }
                .partition(&mut ids, (points, weights))
                .unwrap();
            alg.partition(&mut ids, (points, weights)).unwrap();
            ids
        })
    })
}

fn points_of<const D: usize>(coords: &[f64]) -> Vec<coupe::PointND<D>> {
    (0..coords.len() / D).map(|p| coupe::PointND::<D>::from_fn(|i, _| coords[p * D + i])).collect()
}

fn run_fresh<const D: usize>(
    threads: usize,
    parts: usize,
    maxiter: usize,
    weights: &[f64],
    points: &[coupe::PointND<D>],
) -> Caught<Vec<usize>> {
    let n = weights.len();
    catch(|| {
        with_pool(threads, || {
            let mut ids = vec![usize::MAX; n];
            coupe::MultiJagged { part_count: parts, max_iter: maxiter }
                .partition(&mut ids, (points, weights))
                .unwrap();
            ids
        })
    })
}

/// fresh run and, when `reuse`, the history-dependence probe (tie-invariant comparison)
#[allow(clippy::too_many_arguments)]
fn run_both<const D: usize>(
    ctx: &mut Ctx,
    threads: usize,
    parts: usize,
    maxiter: usize,
    ws: &[u64],
    fcoords: &[f64],
    reuse: bool,
    distinct: bool,
    uniform: bool,
    verdicts: &mut Vec<(&'static str, String)>,
) -> Caught<Vec<usize>> {
    let points = points_of::<D>(fcoords);
    let weights: Vec<f64> = ws.iter().map(|&w| w as f64).collect();
    let res = run_fresh::<D>(threads, parts, maxiter, &weights, &points);
    if reuse && parts >= 1 {
        if let Caught::Ok(ids) = &res {
            ctx.count("reuse");
            match reuse_run::<D>(threads, parts, maxiter, &weights, &points) {
                Caught::Ok(ids2) => {
                    let same = if distinct {
                        canon(ids) == canon(&ids2)
                    } else if uniform {
                        sorted_loads(ids, ws, parts) == sorted_loads(&ids2, ws, parts)
                    } else {
                        true
                    };
                    if !same {
                        verdicts.push((
                            "mj-history-dependent",
                            "a reused algorithm value / id buffer gives another partition than a fresh run".into(),
                        ));
                    }
                }
                Caught::Panic(m) => verdicts.push(("panic", format!("reuse run: {} [{}]", m, panic_sig(&m)))),
                Caught::Hang => verdicts.push(("hang", "reuse run".into())),
            }
        }
    }
    res
}

fn sorted_loads(ids: &[usize], ws: &[u64], parts: usize) -> Vec<u64> {
    let mut loads = vec![0u64; parts.min(1 << 24)];
    for (p, &i) in ids.iter().enumerate() {
        if i < loads.len() {
            loads[i] += ws[p];
        }
    }
    loads.sort_unstable();
    loads
}

fn op_mj(ctx: &mut Ctx, op: &str, it: &mut std::str::SplitWhitespace) -> Option<()> {
    let dim: usize = it.next()?.parse().ok()?;
    let threads: usize = it.next()?.parse().ok()?;
    let parts: usize = it.next()?.parse().ok()?;
    let maxiter: usize = it.next()?.parse().ok()?;
    let n: usize = it.next()?.parse().ok()?;
    if !(dim == 2 || dim == 3) || threads == 0 || threads > 64 {
        return None;
    }
    let ws: Vec<u64> = nums(it, n)?;
    let coords: Vec<i64> = nums(it, n * dim)?;
    if it.next().is_some() {
        return None;
    }
    let distinct = (0..dim).all(|c| pairwise_distinct((0..n).map(|p| coords[p * dim + c]).collect()));
    let uniform = ws.windows(2).all(|w| w[0] == w[1]);
    let positive = ws.iter().all(|&w| w > 0);
    let in_quant = positive && n >= 1 && (1..=n).contains(&parts) && (1..=4).contains(&maxiter);
    ctx.count(if in_quant { "mj_in_quantifier" } else { "mj_outside_quantifier" });
    ctx.count(if distinct {
        "mj_cmp_exact_ids"
    } else if uniform {
        "mj_cmp_tie_loads"
    } else {
        "mj_cmp_tie_oracle_only"
    });
    ctx.count(&format!("mj_threads_{}", threads));
    ctx.count(&format!("mj_dim_{}", dim));
    ctx.count(&format!("mj_maxiter_{}", maxiter.min(7)));
    ctx.count(match n {
        0 => "mj_n_0",
        1..=3 => "mj_n_1-3",
        4..=16 => "mj_n_4-16",
        17..=80 => "mj_n_17-80",
        _ => "mj_n_81-400",
    });
    let fcoords: Vec<f64> = coords.iter().map(|&c| c as f64).collect();
    // history-independence probe on a third of the cases (decided by the op line)
    let reuse = threads == 4;
    finish_mj(ctx, op, dim, threads, parts, maxiter, &ws, &coords, &fcoords, reuse, distinct, uniform, in_quant, false);
    Some(())
}

/// Runs the implementation, the oracle and records the canonical output (shared by `mj` and
/// `mjl`; `hashed`: print a hash of the canonical ids instead of the ids).
#[allow(clippy::too_many_arguments)]
fn finish_mj(
    ctx: &mut Ctx,
    op: &str,
    dim: usize,
    threads: usize,
    parts: usize,
    maxiter: usize,
    ws: &[u64],
    coords: &[i64],
    fcoords: &[f64],
    reuse: bool,
    distinct: bool,
    uniform: bool,
    in_quant: bool,
    hashed: bool,
) {
    let n = ws.len();
    let mut verdicts: Vec<(&'static str, String)> = vec![];
    let res = if dim == 2 {
        run_both::<2>(ctx, threads, parts, maxiter, ws, fcoords, reuse, distinct, uniform, &mut verdicts)
    } else {
        run_both::<3>(ctx, threads, parts, maxiter, ws, fcoords, reuse, distinct, uniform, &mut verdicts)
    };
    let nontrivial = in_quant && n >= 2 && parts >= 2;
    let out = match res {
        Caught::Ok(ids) => {
            oracle_mj(ctx, dim, coords, ws, &ids, parts, maxiter, in_quant, &mut verdicts);
            if distinct {
                if hashed {
                    let h = canon(&ids)
                        .iter()
                        .fold(0u128, |h, &i| (h * 1_000_003 + i as u128 + 1) % ((1u128 << 61) - 1));
                    format!("ok idsh {} {}", n, h)
                } else {
                    tagged("ok ids", &canon(&ids))
                }
            } else if uniform {
                tagged("ok loads", &sorted_loads(&ids, ws, parts))
            } else {
                "ok ties".to_string()
            }
        }
        Caught::Panic(m) => {
            if parts == 0 {
                ctx.count("mj_expected_panic_parts0");
            } else {
                verdicts.push(("panic", format!("{} [{}]", m, panic_sig(&m))));
            }
            format!("panic {}", m)
        }
        Caught::Hang => {
            verdicts.push(("hang", "watchdog".into()));
            "hang".into()
        }
    };
    let idx = ctx.record(op.to_string(), out, nontrivial);
    for (sig, what) in verdicts {
        ctx.fail(idx, sig, what);
    }
}

// ------------------------------------------------------------------ large / corner stream

fn lcg_next(s: u64) -> u64 {
    s.wrapping_mul(6364136223846793005).wrapping_add(1442695040888963407)
}
fn lcg_out(s: u64) -> u64 {
    s >> 33
}

/// Fisher–Yates with the LCG (the Lean driver runs the same recipe).
fn lcg_perm(n: usize, s: &mut u64) -> Vec<i64> {
    let mut a: Vec<i64> = (0..n as i64).collect();
    for k in 0..n.saturating_sub(1) {
        let i = n - 1 - k;
        *s = lcg_next(*s);
        let j = (lcg_out(*s) % (i as u64 + 1)) as usize;
        a.swap(i, j);
    }
    a
}

/// coordinate shapes: 0 random permutation per axis; 1/2 grid numbered row by row with rows of
/// 4096/8192 nodes (ties); 3/4 the same grid sheared so that every axis is pairwise distinct
/// (x ascending inside every row = block-aligned sorted runs, y = the index: already sorted);
/// 5 two concatenated blocks each sorted along x; 6 random with a large offset and tiny
/// differences (600000 + c/1000: distinct as f64, equal as f32).
fn gen_axis(n: usize, cshape: usize, axis: usize, s: &mut u64) -> Vec<i64> {
    let r = if cshape == 1 || cshape == 3 { 4096 } else { 8192 };
    match cshape {
        1 | 2 => (0..n).map(|i| (if axis == 0 { i % r } else if axis == 1 { i / r } else { i % 5 }) as i64).collect(),
        3 | 4 => {
            if axis == 0 {
                let rows = n / r + 1;
                (0..n).map(|i| ((i % r) * rows + i / r) as i64).collect()
            } else if axis == 1 {
                (0..n as i64).collect()
            } else {
                lcg_perm(n, s)
            }
        }
        5 => {
            if axis == 0 {
                let h = n / 2;
                (0..n).map(|i| (if i < h { 2 * i } else { 2 * (i - h) + 1 }) as i64).collect()
            } else {
                lcg_perm(n, s)
            }
        }
        _ => lcg_perm(n, s),
    }
}

fn skew_l(n: usize) -> usize {
    if n >= 8192 && n % 8192 != 0 {
        (n / 8192) * 8192
    } else {
        n.saturating_sub(n / 8 + 1)
    }
}

/// weight shapes: 0 ones; 1 small 1..9; 2 heavy (weight n) where the rank along x lies in the
/// last partial block of 8192, else 1 (every threshold falls into the last partial block);
/// 3 the same by index; 4 weights in [2^45, 2^46) (only for n ≤ 40: totals stay below 2^53).
fn gen_weights_l(n: usize, wshape: usize, xs: &[i64], s: &mut u64) -> Vec<u64> {
    match wshape {
        1 => (0..n)
            .map(|_| {
                *s = lcg_next(*s);
                1 + lcg_out(*s) % 9
            })
            .collect(),
        2 => {
            let mut order: Vec<usize> = (0..n).collect();
            order.sort_by_key(|&i| (xs[i], i));
            let mut w = vec![1u64; n];
            for &i in &order[skew_l(n)..] {
                w[i] = n as u64;
            }
            w
        }
        3 => (0..n).map(|i| if i >= skew_l(n) { n as u64 } else { 1 }).collect(),
        4 => (0..n)
            .map(|_| {
                *s = lcg_next(*s);
                (1u64 << 45) + lcg_out(*s) * (1 << 15)
            })
            .collect(),
        _ => vec![1; n],
    }
}

/// The input of an `mjl` / `mjc` case: per-axis integer coordinates, the same point-major,
/// the f64 coordinates handed to the code, the integer weights.
fn gen_mjl_input(dim: usize, n: usize, cshape: usize, wshape: usize, seed: u64) -> (Vec<Vec<i64>>, Vec<i64>, Vec<f64>, Vec<u64>) {
    let mut s = lcg_next(seed);
    let axes: Vec<Vec<i64>> = (0..dim).map(|c| gen_axis(n, cshape, c, &mut s)).collect();
    let ws = gen_weights_l(n, wshape, &axes[0], &mut s);
    let mut coords = vec![0i64; n * dim];
    for c in 0..dim {
        for i in 0..n {
            coords[i * dim + c] = axes[c][i];
        }
    }
    let fcoords: Vec<f64> = if cshape == 6 {
        coords.iter().map(|&c| 600000.0 + c as f64 * 0.001).collect()
    } else {
        coords.iter().map(|&c| c as f64).collect()
    };
    (axes, coords, fcoords, ws)
}

fn hash_ids(canon_ids: &[usize]) -> u128 {
    canon_ids.iter().fold(0u128, |h, &i| (h * 1_000_003 + i as u128 + 1) % ((1u128 << 61) - 1))
}

fn op_mjl(ctx: &mut Ctx, op: &str, it: &mut std::str::SplitWhitespace) -> Option<()> {
    let dim: usize = it.next()?.parse().ok()?;
    let threads: usize = it.next()?.parse().ok()?;
    let parts: usize = it.next()?.parse().ok()?;
    let maxiter: usize = it.next()?.parse().ok()?;
    let n: usize = it.next()?.parse().ok()?;
    let cshape: usize = it.next()?.parse().ok()?;
    let wshape: usize = it.next()?.parse().ok()?;
    let seed: u64 = it.next()?.parse().ok()?;
    let _cmp: usize = it.next()?.parse().ok()?;
    if it.next().is_some() || !(dim == 2 || dim == 3) || threads == 0 || threads > 64 || n > 1 << 22 {
        return None;
    }
    if wshape == 4 && n > 40 {
        return None;
    }
    let (axes, coords, fcoords, ws) = gen_mjl_input(dim, n, cshape, wshape, seed);
    if cshape == 6 {
        // the mapping must preserve the order exactly (the model sees the integers)
        for c in 0..dim {
            let mut v: Vec<(i64, f64)> = (0..n).map(|i| (coords[i * dim + c], fcoords[i * dim + c])).collect();
            v.sort_by_key(|x| x.0);
            if v.windows(2).any(|w| !(w[0].1 < w[1].1)) {
                ctx.count("large:offset_mapping_not_monotone");
                return None;
            }
        }
    }
    let distinct = axes.iter().all(|a| pairwise_distinct(a.clone()));
    let uniform = ws.windows(2).all(|w| w[0] == w[1]);
    let positive = ws.iter().all(|&w| w > 0);
    let in_quant = positive && n >= 1 && (1..=n).contains(&parts) && (1..=4).contains(&maxiter);
    ctx.count(if in_quant { "mj_in_quantifier" } else { "mj_outside_quantifier" });
    ctx.count(match n {
        0..=4096 => "large:n<=4096",
        4097..=8192 => "large:n_4097-8192",
        8193..=16384 => "large:n_8193-16384",
        16385..=32768 => "large:n_16385-32768",
        32769..=65536 => "large:n_32769-65536",
        65537..=131072 => "large:n_65537-131072",
        _ => "large:n>131072",
    });
    ctx.count(&format!("large:cshape_{}", cshape));
    ctx.count(&format!("large:wshape_{}", wshape));
    ctx.count(&format!("large:threads_{}", threads));
    finish_mj(ctx, op, dim, threads, parts, maxiter, &ws, &coords, &fcoords, true, distinct, uniform, in_quant, true);
    Some(())
}

fn op_split(ctx: &mut Ctx, op: &str, it: &mut std::str::SplitWhitespace) -> Option<()> {
    let threads: usize = it.next()?.parse().ok()?;
    let den: u64 = it.next()?.parse().ok()?;
    let k: usize = it.next()?.parse().ok()?;
    let mods: Vec<u64> = nums(it, k)?;
    let nw: usize = it.next()?.parse().ok()?;
    let ws: Vec<u64> = nums(it, nw)?;
    let np: usize = it.next()?.parse().ok()?;
    let perm: Vec<usize> = nums(it, np)?;
    if it.next().is_some() || den == 0 || threads == 0 || threads > 64 {
        return None;
    }
    let weights: Vec<f64> = ws.iter().map(|&w| w as f64).collect();
    let modifiers: Vec<f64> = mods.iter().map(|&m| m as f64 / den as f64).collect();
    let wellformed = k >= 1 && perm.iter().all(|&i| i < nw);
    ctx.count(if wellformed { "split_wellformed" } else { "split_malformed" });
    let res = catch(|| {
        with_pool(threads, || coupe::verif::multi_jagged::compute_split_positions(&weights, &perm, &modifiers))
    });
    let mut verdicts: Vec<(&str, String)> = vec![];
    let out = match res {
        Caught::Ok(pos) => {
            if wellformed {
                if pos.len() != k - 1 {
                    verdicts.push(("split-count", format!("{} positions for {} modifiers", pos.len(), k)));
                }
                if pos.windows(2).any(|w| w[0] > w[1]) {
                    verdicts.push(("split-not-monotone", format!("{:?}", pos)));
                }
                if pos.iter().any(|&p| p > np) {
                    verdicts.push(("split-beyond-len", format!("{:?} with len {}", pos, np)));
                }
                if pos.iter().any(|&p| p == np) {
                    ctx.count("split_position_at_end");
                }
                if pos.windows(2).any(|w| w[0] == w[1]) {
                    ctx.count("split_empty_slab");
                }
            }
            tagged("ok pos", &pos)
        }
        Caught::Panic(m) => {
            if wellformed {
                verdicts.push(("panic", format!("{} [{}]", m, panic_sig(&m))));
            }
            format!("panic {}", m)
        }
        Caught::Hang => "hang".into(),
    };
    let idx = ctx.record(op.to_string(), out, wellformed && np >= 2 && k >= 2);
    for (sig, what) in verdicts {
        ctx.fail(idx, sig, what);
    }
    Some(())
}

fn op_scheme(ctx: &mut Ctx, op: &str, it: &mut std::str::SplitWhitespace) -> Option<()> {
    let parts: usize = it.next()?.parse().ok()?;
    let maxiter: usize = it.next()?.parse().ok()?;
    if it.next().is_some() {
        return None;
    }
    // (parts > 1, max_iter = 0) asks for a usize::MAX-element Vec: not exercised
    if maxiter == 0 && parts > 1 {
        return None;
    }
    let res = catch(|| coupe::verif::multi_jagged::partition_scheme(parts, maxiter));
    let mut verdicts: Vec<(&str, String)> = vec![];
    let out = match res {
        Caught::Ok(txt) => {
            match parse_scheme(&txt) {
                None => verdicts.push(("scheme-unparsable", txt.chars().take(200).collect())),
                Some(root) => {
                    if root.leaves() != parts {
                        verdicts.push(("scheme-leaves", format!("{} leaves for {} parts", root.leaves(), parts)));
                    }
                    if root.depth() > maxiter {
                        verdicts.push(("scheme-depth", format!("depth {} > max_iter {}", root.depth(), maxiter)));
                    }
                    if !root.shape_ok() {
                        verdicts.push(("scheme-shape", "child or modifier count differs from num_splits+1".into()));
                    }
                    ctx.count(&format!("scheme_depth_{}", root.depth()));
                    if maxiter >= 1 {
                        // exact integer root: least r with r^maxiter >= parts
                        let mut r = 1u128;
                        while r.pow(maxiter as u32) < parts as u128 {
                            r += 1;
                        }
                        ctx.count(if (root.num_splits + 1) as u128 == r {
                            "scheme_f32_root_is_exact_root"
                        } else {
                            "scheme_f32_root_differs_from_exact_root"
                        });
                    }
                }
            }
            format!("ok {}", txt)
        }
        Caught::Panic(m) => {
            if parts == 0 {
                ctx.count("scheme_expected_panic_parts0");
            } else {
                verdicts.push(("panic", format!("{} [{}]", m, panic_sig(&m))));
            }
            format!("panic {}", m)
        }
        Caught::Hang => "hang".into(),
    };
    let idx = ctx.record(op.to_string(), out, parts >= 2 && maxiter >= 1);
    for (sig, what) in verdicts {
        ctx.fail(idx, sig, what);
    }
    Some(())
}

fn op_splitmany(ctx: &mut Ctx, op: &str, it: &mut std::str::SplitWhitespace) -> Option<()> {
    let len: usize = it.next()?.parse().ok()?;
    let k: usize = it.next()?.parse().ok()?;
    let pos: Vec<usize> = nums(it, k)?;
    if it.next().is_some() || len > 1 << 24 {
        return None;
    }
    let wellformed = pos.windows(2).all(|w| w[0] <= w[1]) && pos.iter().all(|&p| p <= len);
    ctx.count(if wellformed { "splitmany_wellformed" } else { "splitmany_malformed" });
    let res = catch(|| coupe::verif::multi_jagged::split_at_mut_many_lens(len, &pos));
    let mut verdicts: Vec<(&str, String)> = vec![];
    let out = match res {
        Caught::Ok(lens) => {
            if wellformed {
                let mut expect = vec![];
                let mut prev = 0;
                for &p in &pos {
                    expect.push(p - prev);
                    prev = p;
                }
                expect.push(len - prev);
                if lens != expect {
                    verdicts.push(("splitmany-lens", format!("{:?} instead of {:?}", lens, expect)));
                }
            }
            tagged("ok lens", &lens)
        }
        Caught::Panic(m) => {
            if wellformed {
                verdicts.push(("panic", format!("{} [{}]", m, panic_sig(&m))));
            }
            format!("panic {}", m)
        }
        Caught::Hang => "hang".into(),
    };
    let idx = ctx.record(op.to_string(), out, wellformed && k >= 1);
    for (sig, what) in verdicts {
        ctx.fail(idx, sig, what);
    }
    Some(())
}

fn run_axissort<const D: usize>(threads: usize, coord: usize, n: usize, coords: &[i64]) -> Caught<Vec<usize>> {
    let points: Vec<coupe::PointND<D>> =
        (0..n).map(|p| coupe::PointND::<D>::from_fn(|i, _| coords[p * D + i] as f64)).collect();
    catch(|| {
        with_pool(threads, || {
            let mut perm: Vec<usize> = (0..n).collect();
            coupe::verif::rcb::axis_sort::<D>(&points, &mut perm, coord);
            perm
        })
    })
}

fn op_axissort(ctx: &mut Ctx, op: &str, it: &mut std::str::SplitWhitespace) -> Option<()> {
    let dim: usize = it.next()?.parse().ok()?;
    let coord: usize = it.next()?.parse().ok()?;
    let threads: usize = it.next()?.parse().ok()?;
    let n: usize = it.next()?.parse().ok()?;
    if !(dim == 2 || dim == 3) || coord >= dim || threads == 0 || threads > 64 {
        return None;
    }
    let coords: Vec<i64> = nums(it, n * dim)?;
    if it.next().is_some() {
        return None;
    }
    let keys: Vec<i64> = (0..n).map(|p| coords[p * dim + coord]).collect();
    let distinct = pairwise_distinct(keys.clone());
    ctx.count(if distinct { "axissort_distinct" } else { "axissort_ties" });
    let res = if dim == 2 {
        run_axissort::<2>(threads, coord, n, &coords)
    } else {
        run_axissort::<3>(threads, coord, n, &coords)
    };
    let mut verdicts: Vec<(&str, String)> = vec![];
    let out = match res {
        Caught::Ok(perm) => {
            let mut seen = vec![false; n];
            let mut is_perm = perm.len() == n;
            for &i in &perm {
                if i >= n || seen[i] {
                    is_perm = false;
                    break;
                }
                seen[i] = true;
            }
            if !is_perm {
                verdicts.push(("axissort-not-permutation", format!("{:?}", perm)));
            } else if perm.windows(2).any(|w| keys[w[0]] > keys[w[1]]) {
                verdicts.push(("axissort-not-sorted", format!("{:?}", perm)));
            }
            if distinct {
                tagged("ok perm", &perm)
            } else {
                "ok ties".to_string()
            }
        }
        Caught::Panic(m) => {
            verdicts.push(("panic", format!("{} [{}]", m, panic_sig(&m))));
            format!("panic {}", m)
        }
        Caught::Hang => "hang".into(),
    };
    let idx = ctx.record(op.to_string(), out, n >= 2);
    for (sig, what) in verdicts {
        ctx.fail(idx, sig, what);
    }
    Some(())
}

pub fn run_op(ctx: &mut Ctx, op: &str) {
    if ctx.hang_limit_reached() {
        return;
    }
    let mut it = op.split_whitespace();
    let r = match it.next() {
        Some("mj") => op_mj(ctx, op, &mut it),
        Some("mjl") => op_mjl(ctx, op, &mut it),
        Some("mjs") => op_mjs(ctx, op, &mut it),
        Some("mjx") => op_mjx(ctx, op, &mut it),
        Some("mjc") => op_mjc(ctx, op, &mut it),
        Some("split") => op_split(ctx, op, &mut it),
        Some("scheme") => op_scheme(ctx, op, &mut it),
        Some("splitmany") => op_splitmany(ctx, op, &mut it),
        Some("axissort") => op_axissort(ctx, op, &mut it),
        _ => None,
    };
    if r.is_none() {
        ctx.record(op.to_string(), "bad-op".into(), false);
    }
}

// ------------------------------------------------------------------ generator

const THREADS: [usize; 3] = [1, 4, 16];

fn gen_n(ctx: &mut Ctx) -> usize {
    match ctx.rng.usize(20) {
        0 => 1,
        1 => 2,
        2 => 3,
        3..=9 => 4 + ctx.rng.usize(13),
        10..=17 => 17 + ctx.rng.usize(64),
        18 => 81 + ctx.rng.usize(120),
        _ => 201 + ctx.rng.usize(200),
    }
}

/// point-major coordinates; returns (coords, shape name)
fn gen_coords(ctx: &mut Ctx, n: usize, dim: usize) -> (Vec<i64>, &'static str) {
    let mut c = vec![0i64; n * dim];
    let shape = match ctx.rng.usize(20) {
        0..=12 => "distinct",
        13..=14 => "grid",
        15 => "equal",
        16..=17 => "line",
        _ => "cluster",
    };
    match shape {
        "distinct" => {
            for a in 0..dim {
                let mut p: Vec<i64> = (0..n as i64).collect();
                ctx.rng.shuffle(&mut p);
                let scale = 1 + ctx.rng.range(0, 4);
                let shift = ctx.rng.range(-1000, 1000);
                let neg = ctx.rng.chance(1, 3);
                for i in 0..n {
                    let v = p[i] * scale + shift;
                    c[i * dim + a] = if neg { -v } else { v };
                }
            }
        }
        "grid" => {
            let g = 1 + ctx.rng.range(1, 6);
            for x in c.iter_mut() {
                *x = ctx.rng.range(0, g);
            }
        }
        "equal" => {
            let v = ctx.rng.range(-3, 3);
            for x in c.iter_mut() {
                *x = v;
            }
        }
        "line" => {
            // distinct along one axis, constant on the others
            let a0 = ctx.rng.usize(dim);
            let mut p: Vec<i64> = (0..n as i64).collect();
            ctx.rng.shuffle(&mut p);
            for i in 0..n {
                for a in 0..dim {
                    c[i * dim + a] = if a == a0 { p[i] } else { 7 };
                }
            }
        }
        _ => {
            let k = 1 + ctx.rng.usize(4);
            let centres: Vec<Vec<i64>> =
                (0..k).map(|_| (0..dim).map(|_| ctx.rng.range(-100, 100)).collect()).collect();
            for i in 0..n {
                let ce = &centres[ctx.rng.usize(k)];
                for a in 0..dim {
                    c[i * dim + a] = ce[a] + ctx.rng.range(-4, 4);
                }
            }
        }
    }
    (c, shape)
}

fn gen_weights(ctx: &mut Ctx, n: usize) -> (Vec<u64>, &'static str) {
    let shape = match ctx.rng.usize(16) {
        0..=2 => "ones",
        3 => "uniform",
        4..=6 => "small",
        7..=8 => "wide",
        9..=11 => "dominant",
        12..=13 => "heavy_few",
        _ => "geometric",
    };
    let mut w: Vec<u64> = match shape {
        "ones" => vec![1; n],
        "uniform" => vec![ctx.rng.range(2, 1000) as u64; n],
        "small" => (0..n).map(|_| ctx.rng.range(1, 9) as u64).collect(),
        "wide" => (0..n).map(|_| ctx.rng.range(1, 1_000_000) as u64).collect(),
        "dominant" | "heavy_few" => (0..n).map(|_| ctx.rng.range(1, 5) as u64).collect(),
        _ => (0..n).map(|i| 1u64 << (i % 30)).collect(),
    };
    if n > 0 {
        match shape {
            "dominant" => {
                // one element at least as heavy as all the others together (the K4 pattern)
                let s: u64 = w.iter().sum();
                let k = ctx.rng.usize(n);
                w[k] = s + ctx.rng.range(0, 20) as u64;
            }
            "heavy_few" => {
                for _ in 0..1 + ctx.rng.usize(3) {
                    let k = ctx.rng.usize(n);
                    w[k] = ctx.rng.range(10, 200) as u64;
                }
            }
            "geometric" => ctx.rng.shuffle(&mut w),
            _ => {}
        }
    }
    (w, shape)
}

fn fmt_mj(dim: usize, threads: usize, parts: usize, maxiter: usize, ws: &[u64], coords: &[i64]) -> String {
    let mut s = format!("mj {} {} {} {} {}", dim, threads, parts, maxiter, ws.len());
    for w in ws {
        s.push(' ');
        s.push_str(&w.to_string());
    }
    for c in coords {
        s.push(' ');
        s.push_str(&c.to_string());
    }
    s
}

fn fmt_split(threads: usize, den: u64, mods: &[u64], ws: &[u64], perm: &[usize]) -> String {
    format!(
        "split {} {} {} {} {} {} {} {}",
        threads,
        den,
        mods.len(),
        join(mods),
        ws.len(),
        join(ws),
        perm.len(),
        join(perm)
    )
    .split_whitespace()
    .collect::<Vec<_>>()
    .join(" ")
}


fn fmt_mjl(dim: usize, threads: usize, parts: usize, maxiter: usize, n: usize, cshape: usize, wshape: usize, seed: u64, cmp: usize) -> String {
    format!("mjl {} {} {} {} {} {} {} {} {}", dim, threads, parts, maxiter, n, cshape, wshape, seed, cmp)
}

/// LARGE / CORNER stream: sizes just above and far above the usual block thresholds (not
/// multiples of powers of two), block-aligned / pre-sorted inputs, skewed weights whose
/// thresholds fall into the last partial block of 8192, part-count corners, tiny sizes,
/// weights near 2^46, and the history-independence probe (`reuse`) on every case.
fn large_stream(ctx: &mut Ctx) {
    const POOLS: [usize; 4] = [1, 2, 3, 16];
    // (n, parts, maxiter, cshape, wshape, dim, compare with the model)
    let fixed: [(usize, usize, usize, usize, usize, usize, usize); 8] = [
        (8193, 7, 2, 0, 1, 2, 1),
        (8193, 64, 2, 3, 2, 2, 1),
        (16421, 5, 3, 4, 2, 2, 1),
        (16421, 257, 1, 5, 3, 3, 1),
        (20001, 64, 4, 1, 0, 2, 1),
        (20001, 2, 1, 6, 2, 2, 1),
        (70001, 257, 2, 4, 2, 2, 0),
        (70001, 7, 3, 5, 1, 3, 0),
    ];
    for (k, &(n, parts, maxiter, cshape, wshape, dim, cmp)) in fixed.iter().enumerate() {
        let threads = POOLS[(k + ctx.rng.usize(4)) % 4];
        let seed = ctx.rng.below(1 << 32);
        run_op(ctx, &fmt_mjl(dim, threads, parts, maxiter, n, cshape, wshape, seed, cmp));
    }
    if !ctx.quick() {
        let sizes = [8193usize, 16421, 20001, 20001, 65548, 70001, 131077, 140003];
        let mut exact_70k = 0;
        for _ in 0..64 {
            let n = *ctx.rng.pick(&sizes);
            let parts = *ctx.rng.pick(&[2usize, 5, 7, 64, 257]);
            let maxiter = 1 + ctx.rng.usize(4);
            let cshape = ctx.rng.usize(7);
            let wshape = ctx.rng.usize(4);
            let dim = 2 + ctx.rng.usize(2);
            let threads = *ctx.rng.pick(&POOLS);
            let seed = ctx.rng.below(1 << 32);
            let cmp = if n <= 20001 {
                1
            } else if n == 70001 && exact_70k < 3 {
                exact_70k += 1;
                1
            } else {
                0
            };
            run_op(ctx, &fmt_mjl(dim, threads, parts, maxiter, n, cshape, wshape, seed, cmp));
        }
    }
    // part-count corners at a size just above 4096
    for &parts in &[63usize, 64, 65, 128, 255, 256, 257] {
        ctx.count(&format!("corner:parts_{}", parts));
        let maxiter = 1 + ctx.rng.usize(4);
        let cshape = *ctx.rng.pick(&[0usize, 3, 5]);
        let wshape = 1 + ctx.rng.usize(2);
        let threads = *ctx.rng.pick(&POOLS);
        let seed = ctx.rng.below(1 << 32);
        let d = 2 + ctx.rng.usize(2);
        run_op(ctx, &fmt_mjl(d, threads, parts, maxiter, 4097, cshape, wshape, seed, 1));
        // and with about as many points as parts
        let n = parts + ctx.rng.usize(400 - parts + 1);
        let dim = 2;
        let (coords, _) = gen_coords_distinct(ctx, n, dim);
        let ws: Vec<u64> = (0..n).map(|_| ctx.rng.range(1, 9) as u64).collect();
        run_op(ctx, &fmt_mj(dim, threads, parts, maxiter, &ws, &coords));
    }
    // thousands of parts
    let many: &[(usize, usize, usize)] =
        if ctx.quick() { &[(20001, 3001, 3)] } else { &[(20001, 3001, 3), (20001, 1024, 2), (20001, 4096, 4), (8193, 5000, 3), (70001, 4099, 2)] };
    for &(n, parts, maxiter) in many {
        ctx.count("corner:thousands_of_parts");
        let threads = *ctx.rng.pick(&POOLS);
        let seed = ctx.rng.below(1 << 32);
        run_op(ctx, &fmt_mjl(2, threads, parts, maxiter, n, 0, 1, seed, if n <= 20001 { 1 } else { 0 }));
    }
    // exactly two and three elements: every part count and max_iter
    for n in 2..=3usize {
        for parts in 1..=n {
            for maxiter in 1..=4 {
                for dim in 2..=3 {
                    ctx.count(&format!("corner:n_{}", n));
                    let (coords, _) = gen_coords_distinct(ctx, n, dim);
                    let ws: Vec<u64> = (0..n).map(|_| ctx.rng.range(1, 9) as u64).collect();
                    let threads = *ctx.rng.pick(&POOLS);
                    run_op(ctx, &fmt_mj(dim, threads, parts, maxiter, &ws, &coords));
                }
            }
        }
    }
    // weights near 2^46 (totals below 2^53: every sum is still exact)
    for _ in 0..ctx.budget(8, 80) {
        ctx.count("corner:weights_2p46");
        let n = *ctx.rng.pick(&[2usize, 3, 5, 17, 40]);
        let parts = 1 + ctx.rng.usize(n);
        let maxiter = 1 + ctx.rng.usize(4);
        let threads = *ctx.rng.pick(&POOLS);
        let seed = ctx.rng.below(1 << 32);
        let d = 2 + ctx.rng.usize(2);
        run_op(ctx, &fmt_mjl(d, threads, parts, maxiter, n, 0, 4, seed, 1));
    }
    ctx.notes.push(
        "large/corner stream: MultiJagged on 8193..70001 (thorough ..140003) points generated from a seed on both sides \
         (random, row-by-row grids with rows of 4096/8192 with and without ties, two sorted blocks, 600000+c/1000 offsets; \
         skewed weights with every threshold in the last partial block of 8192), pools 1/2/3/16, full oracle on all, \
         exact comparison with the model up to 20001 points (3 cases at 70001 in thorough)"
            .into(),
    );
}

fn gen_coords_distinct(ctx: &mut Ctx, n: usize, dim: usize) -> (Vec<i64>, &'static str) {
    let mut c = vec![0i64; n * dim];
    for a in 0..dim {
        let mut p: Vec<i64> = (0..n as i64).collect();
        ctx.rng.shuffle(&mut p);
        for i in 0..n {
            c[i * dim + a] = p[i];
        }
    }
    (c, "distinct")
}


// ------------------------------------------------------------------ weight-scale stream

/// scale codes of the `mjs` op: 0..6 decimal (not exact), 7..9 exact powers of two
const SCALES: [(f64, &str); 15] = [
    (1e-30, "1e-30"),
    (1e-20, "1e-20"),
    (1e-17, "1e-17"),
    (1e-15, "1e-15"),
    (1e-10, "1e-10"),
    (1e10, "1e10"),
    (1e30, "1e30"),
    (8.673617379884035e-19, "2^-60"),
    (9.313225746154785e-10, "2^-30"),
    (1073741824.0, "2^30"),
    // 10: totals just below overflow (the integer weights must sum to less than 2^24)
    (f64::from_bits(2023 << 52), "2^1000"),
    // 11: the smallest normal number as the unit
    (f64::MIN_POSITIVE, "2^-1022"),
    // 12..14: subnormal weights (the code's products round on the subnormal grid: oracle only)
    (1e-310, "1e-310"),
    (f64::from_bits(1), "5e-324"),
    (f64::from_bits(1 << 34), "2^-1040"),
];

/// codes whose scale is an exact power of two AND keeps every intermediate value normal
fn scale_is_exact(code: usize) -> bool {
    (7..=11).contains(&code)
}

fn run_scaled<const D: usize>(
    threads: usize,
    parts: usize,
    maxiter: usize,
    ws: &[u64],
    scale: f64,
    fcoords: &[f64],
) -> Caught<Vec<usize>> {
    let points = points_of::<D>(fcoords);
    let weights: Vec<f64> = ws.iter().map(|&w| w as f64 * scale).collect();
    run_fresh::<D>(threads, parts, maxiter, &weights, &points)
}

/// `mjs <scale code> <D> <threads> <parts> <maxiter> <n> <w…> <coords…>`: the weights handed to
/// the implementation are `w * scale`. The property is scale-free: the oracle (ids, jagged
/// hierarchy, balance bound on the integer weights) applies unchanged; for an exact power of
/// two every float operation of the code scales exactly, so the partition must be IDENTICAL
/// to the one for the unscaled weights (and to the model's prediction).
fn op_mjs(ctx: &mut Ctx, op: &str, it: &mut std::str::SplitWhitespace) -> Option<()> {
    let code: usize = it.next()?.parse().ok()?;
    let dim: usize = it.next()?.parse().ok()?;
    let threads: usize = it.next()?.parse().ok()?;
    let parts: usize = it.next()?.parse().ok()?;
    let maxiter: usize = it.next()?.parse().ok()?;
    let n: usize = it.next()?.parse().ok()?;
    if code >= SCALES.len() || !(dim == 2 || dim == 3) || threads == 0 || threads > 64 {
        return None;
    }
    let ws: Vec<u64> = nums(it, n)?;
    let coords: Vec<i64> = nums(it, n * dim)?;
    if it.next().is_some() {
        return None;
    }
    let (scale, name) = SCALES[code];
    if code == 10 && ws.iter().map(|&w| w as u128).sum::<u128>() >= 1 << 24 {
        return None; // the total would overflow: outside the contract
    }
    let exact = scale_is_exact(code);
    let fcoords: Vec<f64> = coords.iter().map(|&c| c as f64).collect();
    let distinct = (0..dim).all(|c| pairwise_distinct((0..n).map(|p| coords[p * dim + c]).collect()));
    let uniform = ws.windows(2).all(|w| w[0] == w[1]);
    let positive = ws.iter().all(|&w| w > 0);
    let in_quant = positive && n >= 1 && (1..=n).contains(&parts) && (1..=4).contains(&maxiter);
    ctx.count(if in_quant { "mj_in_quantifier" } else { "mj_outside_quantifier" });
    ctx.count(&format!("scale:{}", name));
    if !positive {
        ctx.count(if ws.iter().all(|&w| w == 0) { "scale:all_zero_weights" } else { "scale:some_zero_weights" });
    }
    let run = |sc: f64| {
        if dim == 2 {
            run_scaled::<2>(threads, parts, maxiter, &ws, sc, &fcoords)
        } else {
            run_scaled::<3>(threads, parts, maxiter, &ws, sc, &fcoords)
        }
    };
    let mut verdicts: Vec<(&'static str, String)> = vec![];
    let out = match run(scale) {
        Caught::Ok(ids) => {
            oracle_mj(ctx, dim, &coords, &ws, &ids, parts, maxiter, in_quant, &mut verdicts);
            if code >= 12 {
                // Subnormal weights. KNOWN finding K7 is ONLY the ulp-grid case: the unit is one
                // ulp of the subnormal grid (5e-324) and every weight is at most 2^10 units, so the
                // products `total * modifier` lose their fractional part (each is rounded to a whole
                // number of units, error <= 1/2 unit). What that rounding can explain is bounded:
                // a non-last slab misses its share by less than wmax + 1/2 unit, the last slab of a
                // node with s splits by less than wmax + s/2 units, so a part deviates from
                // total/parts by less than max_iter*wmax + S/2 units, S = the largest sum of
                // num_splits along a root-to-leaf path of the scheme. Within
                //     2*|parts*W - total| <= parts*(2*max_iter*wmax + S)             for EVERY part
                // the imbalance is `mj-imbalance@subnormal-ulp-grid` (known); anything beyond it
                // (e.g. a slab that is not split at all), any other unit (1e-310, 2^-1040) and
                // any weight above 2^10 ulps is an ordinary `mj-imbalance@subnormal`: the unchanged
                // code passes those.
                let wmax = ws.iter().copied().max().unwrap_or(0) as i128;
                let ulp_grid = code == 13 && wmax <= 1 << 10;
                let explained = ulp_grid && {
                    let s_path = catch(|| coupe::verif::multi_jagged::partition_scheme(parts, maxiter));
                    match s_path {
                        Caught::Ok(txt) => match parse_scheme(&txt) {
                            Some(root) => {
                                let sp = root.max_path_splits() as i128;
                                let total: i128 = ws.iter().map(|&w| w as i128).sum();
                                let mut loads = vec![0i128; parts];
                                for (p, &i) in ids.iter().enumerate() {
                                    if i < parts {
                                        loads[i] += ws[p] as i128;
                                    }
                                }
                                let bound = parts as i128 * (2 * maxiter as i128 * wmax + sp);
                                loads.iter().all(|&l| 2 * (parts as i128 * l - total).abs() <= bound)
                            }
                            None => false,
                        },
                        _ => false,
                    }
                };
                for v in verdicts.iter_mut() {
                    if v.0 == "mj-imbalance" {
                        if explained {
                            v.0 = "mj-imbalance@subnormal-ulp-grid";
                            v.1 = format!("weights of at most 2^10 ulps of the subnormal grid (unit {}), deviation within threshold rounding: {}", name, v.1);
                        } else {
                            v.0 = "mj-imbalance@subnormal";
                            v.1 = format!("weights in units of {}{}: {}", name, if ulp_grid { ", beyond what threshold rounding on the ulp grid explains" } else { "" }, v.1);
                        }
                    }
                }
            }
            // against the unscaled run
            match run(1.0) {
                Caught::Ok(ids1) => {
                    let same = if distinct {
                        Some(canon(&ids) == canon(&ids1))
                    } else if uniform {
                        Some(sorted_loads(&ids, &ws, parts) == sorted_loads(&ids1, &ws, parts))
                    } else {
                        None
                    };
                    match (exact, same) {
                        (true, Some(false)) => verdicts.push((
                            "mj-scale-variant",
                            format!("weights times {} (an exact power of two) give another partition than the unscaled weights", name),
                        )),
                        (true, Some(true)) => ctx.count("scale:pow2_identical_to_unscaled"),
                        (false, Some(true)) => ctx.count(if code < 12 { "scale:decimal_same_as_unscaled" } else { "special:subnormal_same_as_unscaled" }),
                        (false, Some(false)) => ctx.count(if code < 12 { "scale:decimal_differs_from_unscaled" } else { "special:subnormal_differs_from_unscaled" }),
                        (_, None) => ctx.count("scale:ties_not_compared"),
                    }
                }
                Caught::Panic(m) => verdicts.push(("panic", format!("unscaled run: {} [{}]", m, panic_sig(&m)))),
                Caught::Hang => verdicts.push(("hang", "unscaled run".into())),
            }
            if distinct {
                tagged("ok ids", &canon(&ids))
            } else if uniform {
                tagged("ok loads", &sorted_loads(&ids, &ws, parts))
            } else {
                "ok ties".to_string()
            }
        }
        Caught::Panic(m) => {
            if parts == 0 {
                ctx.count("mj_expected_panic_parts0");
            } else {
                verdicts.push(("panic", format!("{} [{}]", m, panic_sig(&m))));
            }
            format!("panic {}", m)
        }
        Caught::Hang => {
            verdicts.push(("hang", "watchdog".into()));
            "hang".into()
        }
    };
    let idx = ctx.record(op.to_string(), out, in_quant && n >= 2 && parts >= 2);
    for (sig, what) in verdicts {
        ctx.fail(idx, sig, what);
    }
    Some(())
}

/// WEIGHT-SCALE stream: ordinary inputs with the weights multiplied by 1e-30 … 1e30 and by
/// 2^-60, 2^-30, 2^30 (defect N7: the absolute epsilon of `Ulps::default()` swallowed every
/// difference for tiny weight units; fixed by f7a6b90).
fn scale_stream(ctx: &mut Ctx) {
    for _ in 0..ctx.budget(1500, 15000) {
        let n = gen_n(ctx).min(150);
        let dim = 2 + ctx.rng.usize(2);
        let (coords, _) = gen_coords(ctx, n, dim);
        let (mut ws, _) = gen_weights(ctx, n);
        match ctx.rng.usize(25) {
            0 => {
                for w in ws.iter_mut() {
                    *w = 0;
                }
            }
            1 | 2 => {
                for w in ws.iter_mut() {
                    if ctx.rng.chance(1, 3) {
                        *w = 0;
                    }
                }
            }
            _ => {}
        }
        let parts = match ctx.rng.usize(8) {
            0 => n + 1 + ctx.rng.usize(3),
            1 => n,
            2 => 1 + ctx.rng.usize(n.min(8)),
            _ => 1 + ctx.rng.usize(n),
        };
        let maxiter = 1 + ctx.rng.usize(4);
        let threads = *ctx.rng.pick(&THREADS);
        let code = ctx.rng.usize(10);
        let op = fmt_mj(dim, threads, parts, maxiter, &ws, &coords);
        run_op(ctx, &format!("mjs {} {}", code, &op[3..]));
    }
    // the N7 shape at every scale: many equal weights, few parts
    for code in 0..10 {
        for &(n, parts) in &[(100usize, 4usize), (64, 8), (30, 3)] {
            let coords: Vec<i64> = (0..n as i64).flat_map(|i| [i, (i * 7) % n as i64 + 1000 * (i % 7)]).collect();
            let op = fmt_mj(2, 1, parts, 2, &vec![1u64; n], &coords);
            run_op(ctx, &format!("mjs {} {}", code, &op[3..]));
        }
    }
    ctx.notes.push(
        "weight-scale stream: ordinary inputs with weights times 1e-30, 1e-20, 1e-17, 1e-15, 1e-10, 1e10, 1e30 (oracle; \
         balance evaluated on the integer weights) and times 2^-60, 2^-30, 2^30 (partition must equal the unscaled run \
         and the model's prediction)"
            .into(),
    );
}


// ------------------------------------------------------------------ special values / context

/// `mjx <ctrans> <D> <threads> <parts> <maxiter> <n> <w…> <coords…> <nz> <idx…>`: the listed
/// points carry `-0.0` wherever a weight or coordinate of theirs is zero; the coordinates go
/// through an order-preserving map (0 identity, 1 times 1e36: finite but beyond the f32 range,
/// 2 `600000 + c/1000`: distinct as f64, equal as f32). The result must equal the run with
/// `+0.0` (signature `negzero-dependent@MultiJagged`), and the model's prediction.
fn op_mjx(ctx: &mut Ctx, op: &str, it: &mut std::str::SplitWhitespace) -> Option<()> {
    let ctrans: usize = it.next()?.parse().ok()?;
    let dim: usize = it.next()?.parse().ok()?;
    let threads: usize = it.next()?.parse().ok()?;
    let parts: usize = it.next()?.parse().ok()?;
    let maxiter: usize = it.next()?.parse().ok()?;
    let n: usize = it.next()?.parse().ok()?;
    if ctrans > 2 || !(dim == 2 || dim == 3) || threads == 0 || threads > 64 {
        return None;
    }
    let ws: Vec<u64> = nums(it, n)?;
    let coords: Vec<i64> = nums(it, n * dim)?;
    let nz: usize = it.next()?.parse().ok()?;
    let idx: Vec<usize> = nums(it, nz)?;
    if it.next().is_some() || idx.iter().any(|&p| p >= n) || coords.iter().any(|&c| c.abs() > 1000) {
        return None;
    }
    let map = |c: i64| match ctrans {
        0 => c as f64,
        1 => c as f64 * 1e36,
        _ => 600000.0 + c as f64 * 0.001,
    };
    let plain_c: Vec<f64> = coords.iter().map(|&c| map(c)).collect();
    let plain_w: Vec<f64> = ws.iter().map(|&w| w as f64).collect();
    let mut neg_c = plain_c.clone();
    let mut neg_w = plain_w.clone();
    let (mut nzc, mut nzw) = (0usize, 0usize);
    for &p in &idx {
        for a in 0..dim {
            if neg_c[p * dim + a] == 0.0 && neg_c[p * dim + a].is_sign_positive() {
                neg_c[p * dim + a] = -0.0;
                nzc += 1;
            }
        }
        if neg_w[p] == 0.0 && neg_w[p].is_sign_positive() {
            neg_w[p] = -0.0;
            nzw += 1;
        }
    }
    if nzc > 0 {
        ctx.count(if nzc % 2 == 1 { "special:negzero_coord_odd" } else { "special:negzero_coord_even" });
    }
    if nzw > 0 {
        ctx.count(if nzw % 2 == 1 { "special:negzero_weight_odd" } else { "special:negzero_weight_even" });
    }
    ctx.count(match ctrans {
        0 => "special:coords_plain",
        1 => "special:coords_beyond_f32_range",
        _ => "special:coords_equal_as_f32",
    });
    let distinct = (0..dim).all(|c| pairwise_distinct((0..n).map(|p| coords[p * dim + c]).collect()));
    let uniform = ws.windows(2).all(|w| w[0] == w[1]);
    let positive = ws.iter().all(|&w| w > 0);
    let in_quant = positive && n >= 1 && (1..=n).contains(&parts) && (1..=4).contains(&maxiter);
    ctx.count(if in_quant { "mj_in_quantifier" } else { "mj_outside_quantifier" });
    let run = |w: &[f64], c: &[f64]| {
        if dim == 2 {
            run_fresh::<2>(threads, parts, maxiter, w, &points_of::<2>(c))
        } else {
            run_fresh::<3>(threads, parts, maxiter, w, &points_of::<3>(c))
        }
    };
    let mut verdicts: Vec<(&'static str, String)> = vec![];
    let out = match run(&neg_w, &neg_c) {
        Caught::Ok(ids) => {
            oracle_mj(ctx, dim, &coords, &ws, &ids, parts, maxiter, in_quant, &mut verdicts);
            if nzc + nzw > 0 {
                match run(&plain_w, &plain_c) {
                    Caught::Ok(ids0) => {
                        let same = if distinct {
                            Some(canon(&ids) == canon(&ids0))
                        } else if uniform {
                            Some(sorted_loads(&ids, &ws, parts) == sorted_loads(&ids0, &ws, parts))
                        } else {
                            None
                        };
                        match same {
                            Some(true) => ctx.count("special:negzero_same_as_poszero"),
                            Some(false) => verdicts.push((
                                "negzero-dependent@MultiJagged",
                                format!("{} coordinates / {} weights given as -0.0 change the partition", nzc, nzw),
                            )),
                            None => ctx.count("special:negzero_ties_not_compared"),
                        }
                    }
                    Caught::Panic(m) => verdicts.push(("panic", format!("+0.0 run: {} [{}]", m, panic_sig(&m)))),
                    Caught::Hang => verdicts.push(("hang", "+0.0 run".into())),
                }
            }
            if distinct {
                tagged("ok ids", &canon(&ids))
            } else if uniform {
                tagged("ok loads", &sorted_loads(&ids, &ws, parts))
            } else {
                "ok ties".to_string()
            }
        }
        Caught::Panic(m) => {
            verdicts.push(("panic", format!("{} [{}]", m, panic_sig(&m))));
            format!("panic {}", m)
        }
        Caught::Hang => {
            verdicts.push(("hang", "watchdog".into()));
            "hang".into()
        }
    };
    let idx = ctx.record(op.to_string(), out, in_quant && n >= 2 && parts >= 2);
    for (sig, what) in verdicts {
        ctx.fail(idx, sig, what);
    }
    Some(())
}

enum Pts {
    P2(Vec<coupe::PointND<2>>),
    P3(Vec<coupe::PointND<3>>),
}

struct CallInput {
    dim: usize,
    parts: usize,
    maxiter: usize,
    coords: Vec<i64>,
    ws: Vec<u64>,
    weights: Vec<f64>,
    points: Pts,
}

fn run_call(inp: &CallInput) -> Vec<usize> {
    let mut ids = vec![usize::MAX; inp.weights.len()];
    let mut alg = coupe::MultiJagged { part_count: inp.parts, max_iter: inp.maxiter };
    match &inp.points {
        Pts::P2(p) => alg.partition(&mut ids, (&p[..], &inp.weights[..])).unwrap(),
        Pts::P3(p) => alg.partition(&mut ids, (&p[..], &inp.weights[..])).unwrap(),
    }
    ids
}

/// `mjc <pool> <calls> <D|0> <parts> <maxiter> <n> <cshape> <wshape> <seed>`: `calls` independent
/// inputs (call j: n + 13 j points, parts + j % 3 parts, seed + j, dimension D or 2 + j % 2 when
/// D = 0) run (b) one after the other inside `pool.install` – the reference –, (a) on the global
/// rayon pool, (c) from inside rayon tasks (`join`, `scope`/`spawn`), (d) all at once with
/// `par_iter` on the pool. Every result must equal the reference
/// (`context-dependent@MultiJagged`); out: `ok ctx <hash per call>`.
fn op_mjc(ctx: &mut Ctx, op: &str, it: &mut std::str::SplitWhitespace) -> Option<()> {
    use coupe::rayon::prelude::*;
    let pool: usize = it.next()?.parse().ok()?;
    let calls: usize = it.next()?.parse().ok()?;
    let d: usize = it.next()?.parse().ok()?;
    let parts: usize = it.next()?.parse().ok()?;
    let maxiter: usize = it.next()?.parse().ok()?;
    let n: usize = it.next()?.parse().ok()?;
    let cshape: usize = it.next()?.parse().ok()?;
    let wshape: usize = it.next()?.parse().ok()?;
    let seed: u64 = it.next()?.parse().ok()?;
    if it.next().is_some()
        || pool == 0
        || pool > 64
        || calls == 0
        || calls > 64
        || !(d == 0 || d == 2 || d == 3)
        || ![0usize, 3, 4, 5, 6].contains(&cshape)
        || wshape > 3
        || n + 13 * calls > 1 << 20
    {
        return None;
    }
    let inputs: Vec<CallInput> = (0..calls)
        .map(|j| {
            let dim = if d == 0 { 2 + j % 2 } else { d };
            let nj = n + 13 * j;
            let (_, coords, fcoords, ws) = gen_mjl_input(dim, nj, cshape, wshape, seed + j as u64);
            let points = if dim == 2 { Pts::P2(points_of::<2>(&fcoords)) } else { Pts::P3(points_of::<3>(&fcoords)) };
            let weights = ws.iter().map(|&w| w as f64).collect();
            CallInput { dim, parts: parts + j % 3, maxiter, coords, ws, weights, points }
        })
        .collect();
    ctx.count(&format!("context:pool_{}", pool));
    ctx.count(&format!("context:calls_{}", if calls <= 8 { "<=8" } else if calls <= 16 { "9-16" } else { "17-32+" }));
    if d == 0 {
        ctx.count("context:mixed_dimensions");
    }
    let mut verdicts: Vec<(&'static str, String)> = vec![];
    // (b) reference: sequential inside pool.install
    let reference = catch(|| with_pool(pool, || inputs.iter().map(run_call).collect::<Vec<_>>()));
    let out = match reference {
        Caught::Ok(refs) => {
            let canon_ref: Vec<Vec<usize>> = refs.iter().map(|r| canon(r)).collect();
            let mut variants: Vec<(&str, Caught<Vec<Vec<usize>>>)> = vec![];
            // (a) the global rayon pool (no install)
            variants.push(("global_pool", catch(|| inputs.iter().map(run_call).collect::<Vec<_>>())));
            // (c) from inside rayon tasks: join …
            variants.push((
                "inside_join",
                catch(|| {
                    with_pool(pool, || {
                        let h = inputs.len() / 2;
                        let (mut a, b) = coupe::rayon::join(
                            || inputs[..h].iter().map(run_call).collect::<Vec<_>>(),
                            || inputs[h..].iter().map(run_call).collect::<Vec<_>>(),
                        );
                        a.extend(b);
                        a
                    })
                }),
            ));
            // … and scope/spawn, one task per call
            variants.push((
                "inside_scope_spawn",
                catch(|| {
                    with_pool(pool, || {
                        let slots: Vec<std::sync::Mutex<Vec<usize>>> =
                            inputs.iter().map(|_| std::sync::Mutex::new(vec![])).collect();
                        coupe::rayon::scope(|s| {
                            for (j, inp) in inputs.iter().enumerate() {
                                let slot = &slots[j];
                                s.spawn(move |_| {
                                    *slot.lock().unwrap() = run_call(inp);
                                });
                            }
                        });
                        slots.into_iter().map(|m| m.into_inner().unwrap()).collect::<Vec<_>>()
                    })
                }),
            ));
            // (d) all calls at once
            variants.push((
                "concurrent_par_iter",
                catch(|| with_pool(pool, || inputs.par_iter().map(run_call).collect::<Vec<_>>())),
            ));
            for (kind, res) in variants {
                ctx.count(&format!("context:{}", kind));
                match res {
                    Caught::Ok(rs) => {
                        for (j, r) in rs.iter().enumerate() {
                            let inp = &inputs[j];
                            if canon(r) != canon_ref[j] {
                                verdicts.push((
                                    "context-dependent@MultiJagged",
                                    format!("call {} of {} ({}): another partition than the sequential call", j, calls, kind),
                                ));
                                break;
                            }
                            if kind == "concurrent_par_iter" {
                                let positive = inp.ws.iter().all(|&w| w > 0);
                                let inq = positive && (1..=inp.ws.len()).contains(&inp.parts) && (1..=4).contains(&inp.maxiter);
                                oracle_mj(ctx, inp.dim, &inp.coords, &inp.ws, r, inp.parts, inp.maxiter, inq, &mut verdicts);
                            }
                        }
                    }
                    Caught::Panic(m) => verdicts.push(("panic", format!("{}: {} [{}]", kind, m, panic_sig(&m)))),
                    Caught::Hang => verdicts.push(("hang", kind.to_string())),
                }
            }
            let hashes: Vec<u128> = canon_ref.iter().map(|c| hash_ids(c)).collect();
            tagged("ok ctx", &hashes)
        }
        Caught::Panic(m) => {
            verdicts.push(("panic", format!("{} [{}]", m, panic_sig(&m))));
            format!("panic {}", m)
        }
        Caught::Hang => {
            verdicts.push(("hang", "watchdog".into()));
            "hang".into()
        }
    };
    let idx = ctx.record(op.to_string(), out, true);
    for (sig, what) in verdicts {
        ctx.fail(idx, sig, what);
    }
    Some(())
}

fn fmt_mjx(ctrans: usize, dim: usize, threads: usize, parts: usize, maxiter: usize, ws: &[u64], coords: &[i64], idx: &[usize]) -> String {
    let base = fmt_mj(dim, threads, parts, maxiter, ws, coords);
    format!("mjx {} {} {} {}", ctrans, &base[3..], idx.len(), join(idx)).trim_end().to_string()
}

/// SPECIAL-VALUES / CONTEXT stream.
fn special_stream(ctx: &mut Ctx) {
    // ---- signed zeros as coordinates: pairwise distinct coordinates around 0 on every axis
    for _ in 0..ctx.budget(150, 1500) {
        let n = 2 + ctx.rng.usize(40);
        let dim = 2 + ctx.rng.usize(2);
        let (mut coords, _) = gen_coords_distinct(ctx, n, dim);
        for a in 0..dim {
            // shift so that 0 has negative neighbours (and usually positive ones)
            let shift = 1 + ctx.rng.usize(n - 1) as i64;
            for i in 0..n {
                coords[i * dim + a] -= shift;
            }
        }
        let (ws, _) = gen_weights(ctx, n);
        let zero_pts: Vec<usize> = (0..n).filter(|&p| (0..dim).any(|a| coords[p * dim + a] == 0)).collect();
        let mut idx: Vec<usize> = vec![];
        for &p in &zero_pts {
            if ctx.rng.chance(2, 3) {
                idx.push(p);
            }
        }
        if idx.is_empty() {
            idx.push(zero_pts[0]);
        }
        // a cut next to the zero: every point its own part, or a random part count
        let parts = if ctx.rng.chance(1, 2) { n } else { 1 + ctx.rng.usize(n) };
        let maxiter = 1 + ctx.rng.usize(4);
        let threads = *ctx.rng.pick(&THREADS);
        let ctrans = if ctx.rng.chance(1, 4) { 1 } else { 0 };
        run_op(ctx, &fmt_mjx(ctrans, dim, threads, parts, maxiter, &ws, &coords, &idx));
    }
    // ---- signed zeros on a grid with ties (several zeros per axis, odd and even numbers of -0.0)
    for _ in 0..ctx.budget(60, 600) {
        let n = 2 + ctx.rng.usize(30);
        let dim = 2 + ctx.rng.usize(2);
        let coords: Vec<i64> = (0..n * dim).map(|_| ctx.rng.range(-2, 2)).collect();
        let ws: Vec<u64> = if ctx.rng.chance(1, 2) { vec![1 + ctx.rng.usize(5) as u64; n] } else { gen_weights(ctx, n).0 };
        let mut idx: Vec<usize> = vec![];
        for p in 0..n {
            if ctx.rng.chance(1, 2) {
                idx.push(p);
            }
        }
        let parts = 1 + ctx.rng.usize(n);
        let maxiter = 1 + ctx.rng.usize(4);
        let threads = *ctx.rng.pick(&THREADS);
        run_op(ctx, &fmt_mjx(0, dim, threads, parts, maxiter, &ws, &coords, &idx));
    }
    // ---- -0.0 as a weight (a legal non-negative weight; outside C11's positive-weight quantifier)
    for _ in 0..ctx.budget(100, 1000) {
        let n = 2 + ctx.rng.usize(40);
        let dim = 2 + ctx.rng.usize(2);
        let (coords, _) = gen_coords_distinct(ctx, n, dim);
        let (mut ws, _) = gen_weights(ctx, n);
        let k = 1 + ctx.rng.usize(n.min(6));
        let mut zeros: Vec<usize> = (0..n).collect();
        ctx.rng.shuffle(&mut zeros);
        zeros.truncate(k);
        for &p in &zeros {
            ws[p] = 0;
        }
        let idx: Vec<usize> = zeros.iter().copied().take(1 + ctx.rng.usize(k)).collect();
        let parts = 1 + ctx.rng.usize(n);
        let maxiter = 1 + ctx.rng.usize(4);
        let threads = *ctx.rng.pick(&THREADS);
        run_op(ctx, &fmt_mjx(0, dim, threads, parts, maxiter, &ws, &coords, &idx));
    }
    // ---- coordinates beyond the f32 range / equal as f32 (MultiJagged never converts to f32)
    for _ in 0..ctx.budget(60, 600) {
        let n = gen_n(ctx).min(200);
        let dim = 2 + ctx.rng.usize(2);
        let (mut coords, _) = gen_coords_distinct(ctx, n, dim);
        for c in coords.iter_mut() {
            *c -= (n / 2) as i64;
        }
        let (ws, _) = gen_weights(ctx, n);
        let parts = 1 + ctx.rng.usize(n);
        let maxiter = 1 + ctx.rng.usize(4);
        let threads = *ctx.rng.pick(&THREADS);
        let ctrans = 1 + ctx.rng.usize(2);
        run_op(ctx, &fmt_mjx(ctrans, dim, threads, parts, maxiter, &ws, &coords, &[]));
    }
    // ---- extreme magnitudes of the weights (mjs codes 10..14)
    for _ in 0..ctx.budget(200, 2000) {
        let code = 10 + ctx.rng.usize(5);
        let dim = 2 + ctx.rng.usize(2);
        let threads = *ctx.rng.pick(&THREADS);
        let maxiter = 1 + ctx.rng.usize(4);
        let (n, ws): (usize, Vec<u64>) = if code == 10 {
            // one weight about f64::MAX/2 (2^23 units of 2^1000), a few around 5e307 (2.3e6 units),
            // the rest small; the total is finite but total * 1.01 is not
            let target: u64 = (1 << 24) - 1 - ctx.rng.below(100_000);
            let mut ws = vec![(1u64 << 23) - 1 - ctx.rng.below(1000)];
            let mut sum = ws[0];
            while target - sum > 2_600_000 {
                let w = 2_200_000 + ctx.rng.below(300_000);
                ws.push(w);
                sum += w;
            }
            while target - sum > 0 {
                let w = 1 + ctx.rng.below((target - sum).min(1 + (target - sum) / 2));
                ws.push(w);
                sum += w;
                if ws.len() > 40 {
                    ws.push(target - sum);
                    sum = target;
                }
            }
            ws.retain(|&w| w > 0);
            ctx.rng.shuffle(&mut ws);
            (ws.len(), ws)
        } else {
            let n = gen_n(ctx).min(100);
            (n, gen_weights(ctx, n).0)
        };
        let (coords, _) = gen_coords(ctx, n, dim);
        let parts = 1 + ctx.rng.usize(n);
        ctx.count(&format!("special:weights_{}", SCALES[code].1));
        let op = fmt_mj(dim, threads, parts, maxiter, &ws, &coords);
        run_op(ctx, &format!("mjs {} {}", code, &op[3..]));
    }
    // ---- calling contexts
    let ctxs: Vec<(usize, usize, usize, usize)> = if ctx.quick() {
        // (pool, calls, D or 0 = mixed, n)
        vec![(4, 8, 2, 300), (16, 32, 3, 200), (4, 32, 0, 1000), (16, 8, 0, 8193), (16, 16, 2, 2500), (4, 12, 3, 50)]
    } else {
        let mut v = vec![(4, 8, 2, 300), (16, 32, 3, 200), (4, 32, 0, 1000), (16, 8, 0, 8193), (16, 16, 2, 2500), (4, 12, 3, 50)];
        for _ in 0..40 {
            let pool = *ctx.rng.pick(&[4usize, 16]);
            let calls = 8 + ctx.rng.usize(25);
            let d = *ctx.rng.pick(&[0usize, 2, 3]);
            let n = *ctx.rng.pick(&[2usize, 50, 300, 1000, 4097, 8193]);
            v.push((pool, calls, d, n));
        }
        v
    };
    for (pool, calls, d, n) in ctxs {
        let parts = *ctx.rng.pick(&[2usize, 5, 7, 64]);
        let maxiter = 1 + ctx.rng.usize(4);
        let cshape = *ctx.rng.pick(&[0usize, 3, 4, 5, 6]);
        let wshape = ctx.rng.usize(4);
        let seed = ctx.rng.below(1 << 32);
        run_op(ctx, &format!("mjc {} {} {} {} {} {} {} {} {}", pool, calls, d, parts, maxiter, n, cshape, wshape, seed));
    }
    ctx.notes.push(
        "special/context stream: -0.0 as coordinate (next to negative ones, with a cut beside it; distinct and tied) and as \
         weight, odd and even counts, compared with the +0.0 run; coordinates times 1e36 and 600000+c/1000; weights in units \
         of 2^1000 (total just below overflow), 2^-1022 (both exact: same partition as unscaled), 1e-310, 5e-324, 2^-1040 \
         (subnormal: oracle); 8-32 calls on the global pool, inside join / scope-spawn tasks and concurrently via par_iter \
         on pools of 4 and 16, mixed 2-D/3-D, each compared with the sequential call"
            .into(),
    );
}

pub fn generate(ctx: &mut Ctx) {
    // process-level state: which dimension the first generated call of the run uses is random
    {
        let dim = 2 + ctx.rng.usize(2);
        ctx.count(&format!("context:first_call_dim_{}", dim));
        let n = 5 + ctx.rng.usize(20);
        let (coords, _) = gen_coords_distinct(ctx, n, dim);
        let (ws, _) = gen_weights(ctx, n);
        let parts = 1 + ctx.rng.usize(n);
        run_op(ctx, &fmt_mj(dim, 4, parts, 2, &ws, &coords));
    }
    // ---- exhaustive small sub-space: fixed pairwise-distinct layout, all weight vectors over {1,2,5}
    let nmax = if ctx.quick() { 5 } else { 6 };
    let ys = [2i64, 0, 4, 1, 5, 3];
    let alphabet = [1u64, 2, 5];
    for n in 1..=nmax {
        let coords: Vec<i64> = (0..n).flat_map(|i| [i as i64, ys[i]]).collect();
        let mut digits = vec![0usize; n];
        loop {
            let ws: Vec<u64> = digits.iter().map(|&d| alphabet[d]).collect();
            for parts in 1..=n {
                for maxiter in 1..=2 {
                    ctx.count("mj_exhaustive");
                    let op = fmt_mj(2, 1, parts, maxiter, &ws, &coords);
                    run_op(ctx, &op);
                }
            }
            let mut i = 0;
            while i < n {
                if digits[i] + 1 < alphabet.len() {
                    digits[i] += 1;
                    break;
                }
                digits[i] = 0;
                i += 1;
            }
            if i == n {
                break;
            }
        }
    }
    ctx.notes.push(format!(
        "exhaustive sub-space: n = 1..={} points on a fixed pairwise-distinct 2-D layout x all weight vectors over {:?} x parts 1..=n x max_iter 1..=2",
        nmax, alphabet
    ));

    // ---- random mj cases inside the quantifier
    let count = ctx.budget(12000, 150000);
    for _ in 0..count {
        let n = gen_n(ctx);
        let dim = 2 + ctx.rng.usize(2);
        let (coords, cs) = gen_coords(ctx, n, dim);
        let (ws, wsn) = gen_weights(ctx, n);
        let parts = match ctx.rng.usize(8) {
            0 => 1,
            1 => n,
            2 => 1 + ctx.rng.usize(n.min(8)),
            _ => 1 + ctx.rng.usize(n),
        };
        let maxiter = 1 + ctx.rng.usize(4);
        let threads = *ctx.rng.pick(&THREADS);
        ctx.count(&format!("mj_shape_coords_{}", cs));
        ctx.count(&format!("mj_shape_weights_{}", wsn));
        let op = fmt_mj(dim, threads, parts, maxiter, &ws, &coords);
        run_op(ctx, &op);
    }

    // ---- outside the property's quantifier (inside C01's): parts > n, zero weights, n = 0, max_iter 5..6
    let count = ctx.budget(1500, 15000);
    for _ in 0..count {
        let kind = ctx.rng.usize(6);
        let mut n = gen_n(ctx).min(120);
        let dim = 2 + ctx.rng.usize(2);
        if kind == 4 {
            n = 0;
        }
        let (coords, _) = gen_coords(ctx, n, dim);
        let (mut ws, _) = gen_weights(ctx, n);
        let mut parts = 1 + ctx.rng.usize(n.max(1));
        let mut maxiter = 1 + ctx.rng.usize(4);
        match kind {
            0 => {
                parts = n + 1 + ctx.rng.usize(n + 3);
                ctx.count("mj_out_parts_gt_n");
            }
            1 => {
                for w in ws.iter_mut() {
                    if ctx.rng.chance(1, 3) {
                        *w = 0;
                    }
                }
                ctx.count("mj_out_random_zeros");
            }
            2 => {
                // a zero-weight run at the start / middle / end of the order along axis 0
                let mut order: Vec<usize> = (0..n).collect();
                order.sort_by_key(|&i| coords[i * dim]);
                let len = 1 + ctx.rng.usize(n.max(1));
                let start = match ctx.rng.usize(3) {
                    0 => 0,
                    1 => n.saturating_sub(len),
                    _ => ctx.rng.usize(n.saturating_sub(len) + 1),
                };
                for &i in order.iter().skip(start).take(len) {
                    ws[i] = 0;
                }
                ctx.count("mj_out_zero_slab");
            }
            3 => {
                for w in ws.iter_mut() {
                    *w = 0;
                }
                ctx.count("mj_out_all_zero");
            }
            4 => {
                parts = 1 + ctx.rng.usize(4);
                ctx.count("mj_out_n0");
            }
            _ => {
                maxiter = 5 + ctx.rng.usize(2);
                ctx.count("mj_out_maxiter_5_6");
            }
        }
        let threads = *ctx.rng.pick(&THREADS);
        let op = fmt_mj(dim, threads, parts, maxiter, &ws, &coords);
        run_op(ctx, &op);
    }

    // ---- direct: compute_split_positions
    let count = ctx.budget(4000, 40000);
    for _ in 0..count {
        let big = ctx.rng.chance(1, 10);
        let np = match ctx.rng.usize(10) {
            0 => 0,
            1 => 1,
            2 => 2,
            _ => 3 + ctx.rng.usize(if big { 300 } else { 40 }),
        };
        let extra = ctx.rng.usize(4);
        let nw = np + extra;
        let (mut ws, _) = gen_weights(ctx, nw);
        let mut perm: Vec<usize> = (0..nw).collect();
        ctx.rng.shuffle(&mut perm);
        perm.truncate(np);
        let k = 1 + ctx.rng.usize(8);
        let shape = ctx.rng.usize(8);
        let (mods, den): (Vec<u64>, u64) = match shape {
            0..=2 => {
                // like the scheme: `rem` fat parts of q+1, the rest q
                let q = 1 + ctx.rng.usize(5) as u64;
                let rem = ctx.rng.usize(k);
                let m: Vec<u64> = (0..k).map(|i| if i < rem { q + 1 } else { q }).collect();
                let d = m.iter().sum();
                (m, d)
            }
            3 => (vec![1; k], k as u64),
            4 => {
                // do not sum to den (thresholds beyond the total → the slab's end)
                let m: Vec<u64> = (0..k).map(|_| ctx.rng.range(0, 6) as u64).collect();
                (m, 1 + ctx.rng.usize(8) as u64)
            }
            5 => {
                // uniform weights, thresholds that hit prefix sums exactly
                let w = ctx.rng.range(1, 12) as u64;
                for x in ws.iter_mut() {
                    *x = w;
                }
                (vec![1; k], k as u64)
            }
            6 => {
                // zero-weight runs
                let a = ctx.rng.usize(nw + 1);
                let b = ctx.rng.usize(nw + 1);
                for x in ws.iter_mut().take(a.max(b)).skip(a.min(b)) {
                    *x = 0;
                }
                (vec![1; k], k as u64)
            }
            _ => {
                let m: Vec<u64> = (0..k).map(|_| ctx.rng.range(0, 9) as u64).collect();
                let d = m.iter().sum::<u64>().max(1);
                (m, d)
            }
        };
        ctx.count(&format!("split_shape_{}", shape));
        let threads = *ctx.rng.pick(&THREADS);
        let op = fmt_split(threads, den, &mods, &ws, &perm);
        run_op(ctx, &op);
    }
    // malformed: no modifier, permutation entry out of range
    for _ in 0..ctx.budget(20, 100) {
        let nw = 1 + ctx.rng.usize(6);
        let ws: Vec<u64> = (0..nw).map(|_| ctx.rng.range(1, 9) as u64).collect();
        if ctx.rng.chance(1, 2) {
            let perm: Vec<usize> = (0..nw).collect();
            run_op(ctx, &fmt_split(1, 1, &[], &ws, &perm));
        } else {
            let mut perm: Vec<usize> = (0..nw).collect();
            let k = ctx.rng.usize(nw);
            perm[k] = nw + ctx.rng.usize(3);
            run_op(ctx, &fmt_split(1, 2, &[1, 1], &ws, &perm));
        }
    }

    // ---- direct: partition_scheme
    let (pmax, mmax) = if ctx.quick() { (250usize, 4usize) } else { (400, 6) };
    for parts in 1..=pmax {
        for maxiter in 1..=mmax {
            run_op(ctx, &format!("scheme {} {}", parts, maxiter));
        }
    }
    for _ in 0..ctx.budget(40, 400) {
        let parts = 251 + ctx.rng.usize(4750);
        let maxiter = 2 + ctx.rng.usize(3);
        run_op(ctx, &format!("scheme {} {}", parts, maxiter));
    }
    for m in 0..=4 {
        run_op(ctx, &format!("scheme 0 {}", m));
    }
    run_op(ctx, "scheme 1 0");
    ctx.notes.push(format!(
        "partition_scheme compared for every part_count 1..={} x max_iter 1..={} plus random part counts up to 5000",
        pmax, mmax
    ));

    // ---- direct: split_at_mut_many
    for _ in 0..ctx.budget(1000, 10000) {
        let len = ctx.rng.usize(40);
        let k = ctx.rng.usize(7);
        let mut pos: Vec<usize> = (0..k).map(|_| ctx.rng.usize(len + 1)).collect();
        if ctx.rng.chance(5, 6) {
            pos.sort_unstable();
        } else if ctx.rng.chance(1, 2) && k > 0 {
            let j = ctx.rng.usize(k);
            pos[j] = len + 1 + ctx.rng.usize(3);
        }
        run_op(ctx, &format!("splitmany {} {} {}", len, k, join(&pos)).trim_end().to_string());
    }

    // ---- direct: axis_sort
    for _ in 0..ctx.budget(800, 8000) {
        let n = gen_n(ctx);
        let dim = 2 + ctx.rng.usize(2);
        let (coords, _) = gen_coords(ctx, n, dim);
        let coord = ctx.rng.usize(dim);
        let threads = *ctx.rng.pick(&THREADS);
        run_op(ctx, &format!("axissort {} {} {} {} {}", dim, coord, threads, n, join(&coords)).trim_end().to_string());
    }
    scale_stream(ctx);
    special_stream(ctx);
    large_stream(ctx);
}

#[cfg(test)]
mod tests {
    use super::*;

    fn jag(parts: usize, maxiter: usize, dim: usize, ids: &[usize], coords: &[i64]) -> Option<bool> {
        let root = parse_scheme(&coupe::verif::multi_jagged::partition_scheme(parts, maxiter)).unwrap();
        let np = ids.iter().max().map_or(0, |m| m + 1);
        let (mut j, used) = Jag::new(dim, coords, ids, np, 1_000_000);
        j.check(&root, 0, &used)
    }

    /// The oracle is not vacuous: it accepts jagged assignments and rejects others.
    #[test]
    fn jagged_oracle_discriminates() {
        // one split along x: contiguous runs are accepted, interleaved parts are not
        let line = [0, 0, 1, 1, 2, 2, 3, 3];
        assert_eq!(jag(2, 1, 2, &[0, 0, 1, 1], &line), Some(true));
        assert_eq!(jag(2, 1, 2, &[1, 1, 0, 0], &line), Some(true)); // ids are a renaming
        assert_eq!(jag(2, 1, 2, &[0, 1, 0, 1], &line), Some(false));
        // 2 x 2 scheme on 8 points: slabs by x, each cut by y
        //   x: 0 1 2 3 | 4 5 6 7 ; y chosen so that the y-cut inside a slab is clean
        let c = [0, 0, 1, 5, 2, 1, 3, 6, 4, 2, 5, 7, 6, 3, 7, 9];
        assert_eq!(jag(4, 2, 2, &[0, 1, 0, 1, 2, 3, 2, 3], &c), Some(true));
        // a part straddling the x-cut
        assert_eq!(jag(4, 2, 2, &[0, 1, 0, 2, 1, 3, 2, 3], &c), Some(false));
        // parts cut along x inside a slab instead of y (y ranges interleave)
        assert_eq!(jag(4, 2, 2, &[0, 0, 1, 1, 2, 3, 2, 3], &c), Some(false));
        // more parts than leaves
        assert_eq!(jag(2, 1, 2, &[0, 1, 2, 2], &line), Some(false));
        // empty slabs are fine (fewer parts than leaves)
        assert_eq!(jag(4, 2, 2, &[0, 0, 0, 0, 0, 0, 0, 0], &c), Some(true));
    }
}
