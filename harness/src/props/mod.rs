//! One module per property. Each exposes
//! `generate(ctx)` – build the tier's cases from `ctx.rng` and run each through `run_op`;
//! `run_op(ctx, op)` – parse one protocol line, run the implementation, record the
//!   canonical output with `ctx.record`, evaluate the oracle and call `ctx.fail` on a
//!   violation of the property by the implementation.

use crate::common::Ctx;

pub mod c13;

macro_rules! dispatch {
    ($ctx:expr, $f:ident $(, $arg:expr)*) => {
        match $ctx.prop.as_str() {
            "C13" => { c13::$f($ctx $(, $arg)*); true }
            _ => false,
        }
    };
}

pub fn generate(ctx: &mut Ctx) -> bool {
    // the regression corpus runs first (same op syntax, `/verif/corpus/<Cxx>/*.case`)
    let dir = format!("/verif/corpus/{}", ctx.prop);
    if let Ok(rd) = std::fs::read_dir(&dir) {
        let mut files: Vec<_> = rd.filter_map(|e| e.ok()).map(|e| e.path()).collect();
        files.sort();
        for f in files {
            if f.extension().map(|e| e == "case").unwrap_or(false) {
                if let Ok(text) = std::fs::read_to_string(&f) {
                    for line in text.lines() {
                        let line = line.trim();
                        if line.is_empty() || line.starts_with('#') {
                            continue;
                        }
                        let mut it = line.splitn(2, ' ');
                        let p = it.next().unwrap().to_string();
                        let rest = it.next().unwrap_or("").to_string();
                        if p == ctx.prop {
                            ctx.count("corpus_ops");
                            run_op(ctx, &rest);
                        }
                    }
                }
            }
        }
    }
    dispatch!(ctx, generate)
}

pub fn run_op(ctx: &mut Ctx, op: &str) -> bool {
    dispatch!(ctx, run_op, op)
}
