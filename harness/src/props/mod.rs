//! One module per property. Each exposes
//! `generate(ctx)` – build the tier's cases from `ctx.rng` and run each through `run_op`;
//! `run_op(ctx, op)` – parse one protocol line, run the implementation, record the
//!   canonical output with `ctx.record`, evaluate the oracle and call `ctx.fail` on a
//!   violation of the property by the implementation.

use crate::common::Ctx;

pub mod c01;
pub mod c02;
pub mod c03;
pub mod c04;
pub mod c05;
pub mod c06;
pub mod c07;
pub mod c08;
pub mod c09;
pub mod c10;
pub mod c11;
pub mod c12;
pub mod c13;
pub mod c14;
pub mod c15;
pub mod c16;
pub mod c17;
pub mod c18;
pub mod c19;
pub mod c20;

macro_rules! dispatch {
    ($ctx:expr, $f:ident $(, $arg:expr)*) => {
        match $ctx.prop.as_str() {
            "C01" => { c01::$f($ctx $(, $arg)*); true }
            "C02" => { c02::$f($ctx $(, $arg)*); true }
            "C03" => { c03::$f($ctx $(, $arg)*); true }
            "C04" => { c04::$f($ctx $(, $arg)*); true }
            "C05" => { c05::$f($ctx $(, $arg)*); true }
            "C06" => { c06::$f($ctx $(, $arg)*); true }
            "C07" => { c07::$f($ctx $(, $arg)*); true }
            "C08" => { c08::$f($ctx $(, $arg)*); true }
            "C09" => { c09::$f($ctx $(, $arg)*); true }
            "C10" => { c10::$f($ctx $(, $arg)*); true }
            "C11" => { c11::$f($ctx $(, $arg)*); true }
            "C12" => { c12::$f($ctx $(, $arg)*); true }
            "C13" => { c13::$f($ctx $(, $arg)*); true }
            "C14" => { c14::$f($ctx $(, $arg)*); true }
            "C15" => { c15::$f($ctx $(, $arg)*); true }
            "C16" => { c16::$f($ctx $(, $arg)*); true }
            "C17" => { c17::$f($ctx $(, $arg)*); true }
            "C18" => { c18::$f($ctx $(, $arg)*); true }
            "C19" => { c19::$f($ctx $(, $arg)*); true }
            "C20" => { c20::$f($ctx $(, $arg)*); true }
            _ => false,
        }
    };
}

pub fn generate(ctx: &mut Ctx) -> bool {
    // the regression corpus runs first (same op syntax, `/verif/corpus/<Cxx>/*.case`)
    let dir = format!("/verif/corpus/{}", ctx.prop);
    if let Ok(rd) = std::fs::read_dir(&dir) {
        let mut files: Vec<_> = rd.filter_map(|e| e.ok()).map(|e| e.path()).collect();
        files.sort();
        for f in files {
            if f.extension().map(|e| e == "case").unwrap_or(false) {
                if let Ok(text) = std::fs::read_to_string(&f) {
                    for line in text.lines() {
                        let line = line.trim();
                        if line.is_empty() || line.starts_with('#') {
                            continue;
                        }
                        let mut it = line.splitn(2, ' ');
                        let p = it.next().unwrap().to_string();
                        let rest = it.next().unwrap_or("").to_string();
                        if p == ctx.prop {
                            ctx.count("corpus_ops");
                            run_op(ctx, &rest);
                        }
                    }
                }
            }
        }
    }
    dispatch!(ctx, generate)
}

pub fn run_op(ctx: &mut Ctx, op: &str) -> bool {
    if ctx.hangs >= crate::common::HANG_LIMIT {
        // enough hangs to report; the remaining cases are not run (and not recorded)
        ctx.count("not_run_after_hang_limit");
        return true;
    }
    dispatch!(ctx, run_op, op)
}
