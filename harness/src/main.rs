#![allow(dead_code)]
//! Correspondence + oracle harness for the coupe verification (see /verif/DESIGN.md).
//!
//! `verif-harness run <Cxx> --tier quick|thorough --seed N --out DIR`
//!     generates cases from the seeded PRNG, runs the real implementation
//!     in-process on each, evaluates the property oracle on the implementation's
//!     output and writes `ops.txt` (one protocol line per case, fed to the Lean
//!     model driver by `/verif/check`), `impl.txt` (canonical implementation
//!     output, same line numbering), `oracle.jsonl`, `stats.json`.
//! `verif-harness replay <Cxx> --ops FILE --out DIR`
//!     the same for the op lines of FILE (corpus and replay files).

mod common;
mod props;

use common::{Ctx, Tier};

fn main() {
    let args: Vec<String> = std::env::args().collect();
    // the library's log lines are evaluated, as under the command-line tools (common.rs)
    common::install_tracing_sink();
    if args.len() < 3 {
        eprintln!("usage: verif-harness run|replay <Cxx> [--tier T] [--seed N] [--ops FILE] --out DIR");
        std::process::exit(2);
    }
    let mode = args[1].as_str();
    let prop = args[2].as_str();
    let mut tier = Tier::Quick;
    let mut seed = 1u64;
    let mut out = String::from("/verif/out/tmp");
    let mut ops_file: Option<String> = None;
    let mut i = 3;
    while i < args.len() {
        match args[i].as_str() {
            "--tier" => {
                tier = if args[i + 1] == "thorough" { Tier::Thorough } else { Tier::Quick };
                i += 2;
            }
            "--seed" => {
                seed = args[i + 1].parse().expect("seed");
                i += 2;
            }
            "--out" => {
                out = args[i + 1].clone();
                i += 2;
            }
            "--ops" => {
                ops_file = Some(args[i + 1].clone());
                i += 2;
            }
            x => {
                eprintln!("unknown argument {}", x);
                std::process::exit(2);
            }
        }
    }
    common::install_panic_hook();
    let mut ctx = Ctx::new(prop, tier, seed);
    match mode {
        "run" => {
            if !props::generate(&mut ctx) {
                eprintln!("unknown property {}", prop);
                std::process::exit(2);
            }
        }
        "replay" => {
            let text = std::fs::read_to_string(ops_file.expect("--ops")).expect("read ops");
            for line in text.lines() {
                let line = line.trim();
                if line.is_empty() || line.starts_with('#') {
                    continue;
                }
                // lines are `<Cxx> <op …>`; other properties' lines are skipped
                let mut it = line.splitn(2, ' ');
                let p = it.next().unwrap();
                let rest = it.next().unwrap_or("");
                if p != prop {
                    continue;
                }
                if !props::run_op(&mut ctx, rest) {
                    eprintln!("unknown property {}", prop);
                    std::process::exit(2);
                }
            }
        }
        _ => {
            eprintln!("unknown mode {}", mode);
            std::process::exit(2);
        }
    }
    ctx.write_out(std::path::Path::new(&out)).expect("write out");
    // hung worker threads (watchdog) must not keep the process alive
    std::process::exit(0);
}
