//! Shared machinery of the correspondence harness: one PRNG, the case log
//! (ops / implementation outputs / oracle failures / input distribution),
//! panic capture and a watchdog.

use std::collections::{BTreeMap, HashSet};
use std::fmt::Write as _;
use std::hash::{Hash, Hasher};
use std::io::Write as _;
use std::panic::{self, AssertUnwindSafe};
use std::path::{Path, PathBuf};
use std::sync::mpsc;
use std::sync::Mutex;
use std::time::Duration;

/// xorshift64* – every random choice of a run derives from one state.
#[derive(Clone, Debug)]
pub struct Rng(pub u64);

impl Rng {
    pub fn new(seed: u64) -> Self {
        let mut r = Rng(seed.wrapping_mul(0x9E37_79B9_7F4A_7C15) ^ 0xD1B5_4A32_D192_ED03);
        if r.0 == 0 {
            r.0 = 0x2545_F491_4F6C_DD1D;
        }
        for _ in 0..8 {
            r.next();
        }
        r
    }
    pub fn next(&mut self) -> u64 {
        let mut x = self.0;
        x ^= x >> 12;
        x ^= x << 25;
        x ^= x >> 27;
        self.0 = x;
        x.wrapping_mul(0x2545_F491_4F6C_DD1D)
    }
    /// uniform in `0..n` (n > 0)
    pub fn below(&mut self, n: u64) -> u64 {
        self.next() % n
    }
    pub fn usize(&mut self, n: usize) -> usize {
        (self.next() % n as u64) as usize
    }
    /// uniform in `lo..=hi`
    pub fn range(&mut self, lo: i64, hi: i64) -> i64 {
        lo + (self.next() % ((hi - lo + 1) as u64)) as i64
    }
    pub fn chance(&mut self, num: u64, den: u64) -> bool {
        self.next() % den < num
    }
    pub fn pick<'a, T>(&mut self, xs: &'a [T]) -> &'a T {
        &xs[self.usize(xs.len())]
    }
    pub fn shuffle<T>(&mut self, xs: &mut [T]) {
        for i in (1..xs.len()).rev() {
            let j = self.usize(i + 1);
            xs.swap(i, j);
        }
    }
}

#[derive(Clone, Copy, PartialEq, Eq, Debug)]
pub enum Tier {
    Quick,
    Thorough,
}

/// An oracle failure: the property (or a sub-claim of it) does not hold on the
/// *implementation's* output for this op.
#[derive(Clone, Debug)]
pub struct Failure {
    pub case: usize,
    pub op: String,
    /// cause signature, compared with KNOWN_FINDINGS.json
    pub sig: String,
    pub what: String,
}

pub struct Ctx {
    pub prop: String,
    pub tier: Tier,
    pub seed: u64,
    pub rng: Rng,
    pub ops: Vec<String>,
    pub impl_out: Vec<String>,
    pub failures: Vec<Failure>,
    pub hist: BTreeMap<String, u64>,
    pub distinct: HashSet<u64>,
    pub nontrivial: u64,
    pub samples: Vec<String>,
    pub notes: Vec<String>,
    /// replay mode: ops come from a file instead of the generator
    pub replay_ops: Option<Vec<String>>,
    /// watchdog expiries reported so far (each leaves a spinning thread behind and costs the whole
    /// watchdog delay: after `HANG_LIMIT` of them the run stops executing further cases)
    pub hangs: usize,
}

pub const HANG_LIMIT: usize = 3;

impl Ctx {
    pub fn new(prop: &str, tier: Tier, seed: u64) -> Self {
        // property id is mixed into the seed so that properties do not share streams
        let mut h = std::collections::hash_map::DefaultHasher::new();
        prop.hash(&mut h);
        Ctx {
            prop: prop.to_string(),
            tier,
            seed,
            rng: Rng::new(seed ^ h.finish()),
            ops: vec![],
            impl_out: vec![],
            failures: vec![],
            hist: BTreeMap::new(),
            distinct: HashSet::new(),
            nontrivial: 0,
            samples: vec![],
            notes: vec![],
            replay_ops: None,
            hangs: 0,
        }
    }

    /// true once `HANG_LIMIT` watchdog expiries have been reported: the remaining cases are not run
    pub fn hang_limit_reached(&mut self) -> bool {
        if self.hangs >= HANG_LIMIT {
            self.count("not_run_after_hang_limit");
            true
        } else {
            false
        }
    }

    pub fn quick(&self) -> bool {
        self.tier == Tier::Quick
    }

    /// pick a budget by tier
    pub fn budget(&self, quick: usize, thorough: usize) -> usize {
        if self.quick() {
            quick
        } else {
            thorough
        }
    }

    pub fn count(&mut self, key: &str) {
        *self.hist.entry(key.to_string()).or_insert(0) += 1;
    }

    /// Record one executed operation. `op` is the protocol line (without the
    /// property prefix), `out` the canonical implementation output,
    /// `nontrivial` the generator's verdict on whether the case exercises the
    /// property in a non-degenerate way. Returns the case index.
    pub fn record(&mut self, op: String, out: String, nontrivial: bool) -> usize {
        let idx = self.ops.len();
        if nontrivial {
            let mut h = std::collections::hash_map::DefaultHasher::new();
            op.hash(&mut h);
            if self.distinct.insert(h.finish()) {
                self.nontrivial += 1;
                if self.samples.len() < 6 && (self.samples.len() < 2 || idx % 97 == 0) {
                    let mut s = format!("{} {} => {}", self.prop, op, out);
                    if s.len() > 600 {
                        s.truncate(600);
                        s.push('…');
                    }
                    self.samples.push(s);
                }
            }
        }
        self.ops.push(format!("{} {}", self.prop, op));
        self.impl_out.push(out);
        idx
    }

    pub fn fail(&mut self, case: usize, sig: &str, what: String) {
        if sig.starts_with("hang") || sig.ends_with("hang") {
            self.hangs += 1;
        }
        let op = self.ops[case].clone();
        self.count(&format!("oracle_fail:{}", sig));
        // keep at most 50 failures per signature (enough for classification)
        if self.failures.iter().filter(|f| f.sig == sig).count() < 50 {
            self.failures.push(Failure { case, op, sig: sig.to_string(), what });
        }
    }

    pub fn write_out(&self, dir: &Path) -> std::io::Result<()> {
        std::fs::create_dir_all(dir)?;
        let mut f = std::io::BufWriter::new(std::fs::File::create(dir.join("ops.txt"))?);
        for l in &self.ops {
            writeln!(f, "{}", l)?;
        }
        f.flush()?;
        let mut f = std::io::BufWriter::new(std::fs::File::create(dir.join("impl.txt"))?);
        for l in &self.impl_out {
            writeln!(f, "{}", l)?;
        }
        f.flush()?;
        let mut f = std::io::BufWriter::new(std::fs::File::create(dir.join("oracle.jsonl"))?);
        for x in &self.failures {
            writeln!(
                f,
                "{{\"case\":{},\"op\":{},\"sig\":{},\"what\":{}}}",
                x.case,
                json_str(&x.op),
                json_str(&x.sig),
                json_str(&x.what)
            )?;
        }
        f.flush()?;
        let mut s = String::new();
        write!(
            s,
            "{{\"property\":{},\"seed\":{},\"tier\":{},\"evaluations\":{},\"distinct_nontrivial\":{},\"oracle_failures\":{},\"hist\":{{",
            json_str(&self.prop),
            self.seed,
            json_str(if self.quick() { "quick" } else { "thorough" }),
            self.ops.len(),
            self.nontrivial,
            self.failures.len()
        )
        .unwrap();
        let mut first = true;
        for (k, v) in &self.hist {
            if !first {
                s.push(',');
            }
            first = false;
            write!(s, "{}:{}", json_str(k), v).unwrap();
        }
        s.push_str("},\"samples\":[");
        for (i, x) in self.samples.iter().enumerate() {
            if i > 0 {
                s.push(',');
            }
            s.push_str(&json_str(x));
        }
        s.push_str("],\"notes\":[");
        for (i, x) in self.notes.iter().enumerate() {
            if i > 0 {
                s.push(',');
            }
            s.push_str(&json_str(x));
        }
        s.push_str("]}\n");
        std::fs::write(dir.join("stats.json"), s)?;
        Ok(())
    }
}

pub fn json_str(s: &str) -> String {
    let mut o = String::with_capacity(s.len() + 2);
    o.push('"');
    for c in s.chars() {
        match c {
            '"' => o.push_str("\\\""),
            '\\' => o.push_str("\\\\"),
            '\n' => o.push_str("\\n"),
            '\r' => o.push_str("\\r"),
            '\t' => o.push_str("\\t"),
            c if (c as u32) < 0x20 => {
                write!(o, "\\u{:04x}", c as u32).unwrap();
            }
            c => o.push(c),
        }
    }
    o.push('"');
    o
}

pub fn join<T: std::fmt::Display>(xs: &[T]) -> String {
    let mut s = String::new();
    for (i, x) in xs.iter().enumerate() {
        if i > 0 {
            s.push(' ');
        }
        write!(s, "{}", x).unwrap();
    }
    s
}

// ---------------------------------------------------------------- panics

static LAST_PANIC: Mutex<Option<String>> = Mutex::new(None);

/// Install a silent panic hook that remembers `file:line: message`.
pub fn install_panic_hook() {
    panic::set_hook(Box::new(|info| {
        let loc = info
            .location()
            .map(|l| {
                let f = l.file();
                // keep the path relative to the repository
                let f = f.strip_prefix("/repo/").unwrap_or(f);
                format!("{}:{}", f, l.line())
            })
            .unwrap_or_else(|| "?".into());
        let msg = if let Some(s) = info.payload().downcast_ref::<&str>() {
            s.to_string()
        } else if let Some(s) = info.payload().downcast_ref::<String>() {
            s.clone()
        } else {
            "<non-string panic>".to_string()
        };
        if let Ok(mut g) = LAST_PANIC.lock() {
            // keep the first panic of a case (later ones are usually consequences)
            if g.is_none() {
                *g = Some(format!("{}: {}", loc, msg));
            }
        }
    }));
}

/// Outcome of running implementation code under `catch_unwind`.
pub enum Caught<T> {
    Ok(T),
    /// `file:line: message`
    Panic(String),
    Hang,
}

pub fn catch<T>(f: impl FnOnce() -> T) -> Caught<T> {
    if let Ok(mut g) = LAST_PANIC.lock() {
        *g = None;
    }
    match panic::catch_unwind(AssertUnwindSafe(f)) {
        Ok(v) => Caught::Ok(v),
        Err(_) => {
            let m = LAST_PANIC.lock().ok().and_then(|mut g| g.take()).unwrap_or_else(|| "?".into());
            Caught::Panic(m)
        }
    }
}

/// Run `f` on a helper thread with a watchdog. A hang leaves the helper thread
/// spinning (it cannot be killed); the caller should finish the batch and the
/// process exits through `std::process::exit` at the end of `main`.
pub fn catch_timeout<T: Send + 'static>(
    secs: u64,
    f: impl FnOnce() -> T + Send + 'static,
) -> Caught<T> {
    let (tx, rx) = mpsc::channel();
    std::thread::Builder::new()
        .stack_size(64 << 20)
        .spawn(move || {
            let r = catch(f);
            let _ = tx.send(match r {
                Caught::Ok(v) => Ok(v),
                Caught::Panic(m) => Err(m),
                Caught::Hang => unreachable!(),
            });
        })
        .expect("spawn");
    match recv_patient(&rx, secs) {
        Some(Ok(v)) => Caught::Ok(v),
        Some(Err(m)) => Caught::Panic(m),
        None => Caught::Hang,
    }
}

/// Wait for a result for `secs` seconds of *running* time: the wait is cut into one-second slices
/// and a slice that took much longer than a second on the wall clock (the whole machine was paused
/// or suspended, e.g. while a snapshot of the sandbox is taken) is not charged. A computation that
/// really hangs or spins lets every slice expire on time, so it is still reported after `secs`.
pub fn recv_patient<T>(rx: &mpsc::Receiver<T>, secs: u64) -> Option<T> {
    let mut charged = 0u64;
    let mut slices = 0u64;
    while charged < secs && slices < 20 * secs + 600 {
        let t0 = std::time::Instant::now();
        match rx.recv_timeout(Duration::from_secs(1)) {
            Ok(v) => return Some(v),
            Err(mpsc::RecvTimeoutError::Disconnected) => return None,
            Err(mpsc::RecvTimeoutError::Timeout) => {
                slices += 1;
                if t0.elapsed() < Duration::from_millis(2500) {
                    charged += 1;
                }
            }
        }
    }
    None
}

/// `file:line: msg` → a signature that survives line-number changes:
/// `file: message-class` (digits in the message are replaced by `#`).
pub fn panic_sig(m: &str) -> String {
    let mut parts = m.splitn(2, ": ");
    let loc = parts.next().unwrap_or("?");
    let msg = parts.next().unwrap_or("");
    let file = loc.rsplitn(2, ':').last().unwrap_or(loc);
    let mut cls = String::new();
    let mut prev_hash = false;
    for c in msg.chars() {
        if c.is_ascii_digit() {
            if !prev_hash {
                cls.push('#');
            }
            prev_hash = true;
        } else {
            cls.push(c);
            prev_hash = false;
        }
    }
    if cls.len() > 80 {
        cls.truncate(80);
    }
    format!("panic@{}: {}", file, cls)
}

pub fn out_dir(base: &str) -> PathBuf {
    PathBuf::from(base)
}

/// Run `f` inside a rayon pool of `threads` workers.
pub fn with_pool<T: Send>(threads: usize, f: impl FnOnce() -> T + Send) -> T {
    let pool = coupe::rayon::ThreadPoolBuilder::new()
        .num_threads(threads)
        .build()
        .expect("pool");
    pool.install(f)
}


// ---------------------------------------------------------------------------
// tracing: everything enabled, everything evaluated, nothing kept
// ---------------------------------------------------------------------------

/// `tracing` evaluates the arguments of a span or event only when a subscriber enables its
/// callsite; without one, an expression inside a log line (`a - b`, `v[i + 1]`, a division) never
/// runs. The command-line tools install a subscriber, so the harness does too: every callsite is
/// enabled and every recorded field is formatted (into nothing), which is what a `fmt` or
/// `chrome` layer does with it.
struct AllOn;

struct FieldSink;

struct Null;

impl std::fmt::Write for Null {
    fn write_str(&mut self, _: &str) -> std::fmt::Result {
        Ok(())
    }
}

impl tracing::field::Visit for FieldSink {
    fn record_debug(&mut self, _field: &tracing::field::Field, value: &dyn std::fmt::Debug) {
        use std::fmt::Write as _;
        let _ = write!(Null, "{:?}", value);
    }
}

impl tracing::Subscriber for AllOn {
    fn enabled(&self, _: &tracing::Metadata<'_>) -> bool {
        true
    }
    fn new_span(&self, attrs: &tracing::span::Attributes<'_>) -> tracing::span::Id {
        attrs.record(&mut FieldSink);
        tracing::span::Id::from_u64(1)
    }
    fn record(&self, _: &tracing::span::Id, values: &tracing::span::Record<'_>) {
        values.record(&mut FieldSink);
    }
    fn record_follows_from(&self, _: &tracing::span::Id, _: &tracing::span::Id) {}
    fn event(&self, event: &tracing::Event<'_>) {
        event.record(&mut FieldSink);
    }
    fn enter(&self, _: &tracing::span::Id) {}
    fn exit(&self, _: &tracing::span::Id) {}
}

/// Installs the all-enabled subscriber for the whole process (unless `VERIF_NO_TRACING` is set).
pub fn install_tracing_sink() -> bool {
    if std::env::var_os("VERIF_NO_TRACING").is_some() {
        return false;
    }
    tracing::subscriber::set_global_default(AllOn).is_ok()
}
