#!/usr/bin/env python3
"""Writes /verif/MANIFEST.json from tools/propcfg.py (single source of truth)."""
import json
import os
import sys

sys.path.insert(0, os.path.dirname(os.path.abspath(__file__)))
import propcfg

VERIF = os.path.join(os.path.dirname(os.path.abspath(__file__)), "..")
ALL = ["C%02d" % i for i in range(1, 21)]

checks = []
for pid in ALL:
    if pid not in propcfg.PROPS:
        continue
    c = propcfg.PROPS[pid]
    checks.append({
        "property_id": pid,
        "quick_cmd": "./check %s --tier quick" % pid,
        "thorough_cmd": "./check %s --tier thorough" % pid,
        "evidence_file": "/verif/evidence/%s.json" % pid,
        "replay_cmd_template": "./check %s --replay {path}" % pid,
        "engine": "lean4-proof+correspondence",
        "level_claimed": {
            "category": "proof",
            "text": c["level_text"],
            "design_ref": "DESIGN.md §6 " + pid,
        },
        "level_note": c["level_note"],
        "technique": c["technique"],
    })

manifest = {
    "version": 1,
    "setup_cmd": "./setup.sh",
    "hooks": {
        "guard": "--cfg coupe_verif",
        "enable": "the harness crate /verif/harness sets build.rustflags = [\"--cfg\", \"coupe_verif\"] in its .cargo/config.toml and depends on /repo by path; nothing in /repo's own build sets the cfg",
        "baseline_off_cmd": "cd /repo && cargo test --workspace --no-fail-fast --offline",
        "source_commits": propcfg.HOOK_COMMITS,
        "add_only": True,
    },
    "engines": [
        {
            "name": "lean4-proof+correspondence",
            "path": "/verif/check",
            "serves_properties": [c["property_id"] for c in checks],
            "kind_free_text": "Lean 4 theorems over an executable model of the Rust code (/verif/lean), tied to /repo on every run by a translator (tools/extract.py -> CoupeModel/Gen) and by a differential correspondence run (Rust harness /verif/harness vs. the compiled Lean model driver), with a property oracle on the implementation's outputs that supplies the failing input",
        }
    ],
    "checks": checks,
    "not_applicable": [
        {"property_id": pid, "reason": propcfg.NOT_CLAIMED.get(pid, "check not built yet (work in progress; see DESIGN.md §9 order of work)")}
        for pid in ALL if pid not in propcfg.PROPS
    ],
    "notes": "All checks: `./check Cxx --tier quick|thorough`; env VERIF_SEED / VERIF_TIER honoured. Known findings and repaired defects: /verif/KNOWN_FINDINGS.json. Seeded breakages used to test the checks: /verif/seeded/. The correspondence runs the DEBUG build of /repo (overflow checks and debug assertions on); the translator locks that debug assertions have no side effects and that cfg(debug_assertions) appears in no new place (build_profile_lock), which is a lock and not a proof that release builds behave alike; release-only behaviour is otherwise seen only through the C library (C17).",
}
json.dump(manifest, open(os.path.join(VERIF, "MANIFEST.json"), "w"), indent=1)
print("MANIFEST.json: %d checks, %d not claimed" % (len(checks), len(manifest["not_applicable"])))
