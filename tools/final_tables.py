#!/usr/bin/env python3
"""Rewrites DESIGN.md §11.7 (and only it: §11.8 and later sections are kept) (counts per property, complete table of seeded changes) from
evidence/*.json and seeded/*/meta.json."""
import subprocess, os
V = os.path.dirname(os.path.dirname(os.path.abspath(__file__)))
p = os.path.join(V, "DESIGN.md"); s = open(p).read()
i = s.find("\n### 11.7 Final state")
tail = ""
if i >= 0:
    j = s.find("\n### 11.8", i)  # later sections are kept as they are
    tail = s[j:] if j >= 0 else ""
    s = s[:i]
tab = subprocess.check_output(["python3", os.path.join(V, "tools/seedtable.py")], text=True)
ev = subprocess.check_output(["python3", os.path.join(V, "tools/evtable.py")], text=True)
rows = [l for l in tab.split("\n") if l.startswith("| C")]
last = lambda l: l.rsplit("|", 2)[1]
n = len(rows)
det = len([l for l in rows if last(l).strip().startswith(("quick (failing input)", "thorough (failing input)"))])
nfi = len([l for l in rows if "no-failing-input-found" in last(l).split("—")[0]])
mis = len([l for l in rows if last(l).strip().startswith("missed")])
ne = len([l for l in rows if last(l).strip().startswith("not evaluated")])
add = '''
### 11.7 Final state: counts per property and the complete table of seeded changes

Counts from the last run of every check on the unchanged tree (`tools/evtable.py`
over `evidence/*.json`; quick tier, seed 1 unless stated):

%s
Seeded changes kept in `/verif/seeded/` (`tools/seedtable.py` over
`seeded/*/meta.json`; rounds 1-5): %d changes, of which %d are reported with a
failing input, %d through a broken theorem, translator or correspondence without
one (`no-failing-input-found`), %d are missed and %d could not be evaluated (the
patch no longer applies after a later fix of the same lines). The verdict is that
of the LAST evaluation; "missed at first" histories say what was added in between.
About forty of the older changes were evaluated once more against the final
machinery (regression of the checks themselves); none was lost. Changes that the
seeders proposed but that did not survive confirmation (a demonstration that fails
on the clean tree, or passes with the patch - e.g. C06-r3-3 after N11 was
repaired, C17-r3-2 whose trigger is an unwritable stderr) are not kept.

%s
''' % (ev, n, det, nfi, mis, ne, tab)
open(p, "w").write(s.rstrip("\n") + "\n" + add.rstrip("\n") + "\n" + (tail.rstrip("\n") + "\n" if tail else ""))
print(n, det, nfi, mis, ne)
