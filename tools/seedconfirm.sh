#!/bin/bash
# Usage: tools/seedconfirm.sh <seed dir with patch.diff, demo.*, meta.json> <scratch worktree of /repo>
# Confirms independently that (1) on the clean tree the demonstration passes, (2) with the patch the
# workspace compiles and its own test suite passes, (3) with the patch the demonstration fails.
# Prints CONFIRMED or NOT-CONFIRMED(<why>). Leaves the worktree clean.
set -u
S=$(readlink -f "$1"); W=$(readlink -f "$2")
cd "$S"
CMD=$(python3 -c "import json;print(json.load(open('meta.json'))['demo_cmd'])")
clean() { git -C "$W" checkout -q -- . ; git -C "$W" clean -qfd -e target ; }
clean; mkdir -p "$W/tests" "$W/tools/tests" "$W/tools/mesh-io/tests" "$W/ffi/tests"
export CARGO_NET_OFFLINE=true
if ! (cd "$S" && bash -c "$CMD") >/tmp/seedconfirm.$$.a 2>&1; then echo "NOT-CONFIRMED(demo fails on the clean tree)"; tail -5 /tmp/seedconfirm.$$.a; clean; exit 1; fi
clean; mkdir -p "$W/tests" "$W/tools/tests" "$W/tools/mesh-io/tests" "$W/ffi/tests"
if ! git -C "$W" apply "$S/patch.diff"; then echo "NOT-CONFIRMED(patch does not apply)"; clean; exit 1; fi
if ! (cd "$W" && cargo test --workspace --no-fail-fast --offline) >/tmp/seedconfirm.$$.b 2>&1; then echo "NOT-CONFIRMED(existing tests fail with the patch)"; grep -E "FAILED|failed|error" /tmp/seedconfirm.$$.b | head -5; clean; exit 1; fi
NPASS=$(grep -E "^test result: ok" /tmp/seedconfirm.$$.b | sed -E 's/.*ok\. ([0-9]+) passed.*/\1/' | paste -sd+ | bc)
if (cd "$S" && bash -c "$CMD") >/tmp/seedconfirm.$$.c 2>&1; then echo "NOT-CONFIRMED(demo passes with the patch)"; clean; exit 1; fi
clean; mkdir -p "$W/tests" "$W/tools/tests" "$W/tools/mesh-io/tests" "$W/ffi/tests"
echo "CONFIRMED (clean: demo passes; patched: workspace tests pass [$NPASS passed incl. doctests], demo fails)"
rm -f /tmp/seedconfirm.$$.*
