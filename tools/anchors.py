#!/usr/bin/env python3
"""Anchor drift detector (DESIGN §2.2): normalised-source hashes of the files each property is
anchored in (properties.jsonl: anchors.files). `tools/anchors.py --update` records the hashes of
the current /repo in /verif/anchors.json (done by hand after the models were last validated against
the code, and committed). `changed(prop)` lists the anchor files whose hash differs now: that is not
a violation, it makes ./check run the property's correspondence at the thorough budget even in the
quick tier, because a hand-written model is only as good as its last validation."""
import hashlib, json, os, re, sys

VERIF = os.path.join(os.path.dirname(os.path.abspath(__file__)), "..")
REPO = "/repo"
DB = os.path.join(VERIF, "anchors.json")


def norm(text):
    text = re.sub(r"/\*.*?\*/", "", text, flags=re.S)
    text = re.sub(r"//[^\n]*", "", text)
    return re.sub(r"\s+", "", text)


def files_of(prop):
    for line in open(os.path.join(VERIF, "properties.jsonl")):
        p = json.loads(line)
        if p["id"] == prop:
            return [f for f in p["anchors"]["files"] if f.endswith((".rs", ".h"))]
    return []


def current(prop):
    out = {}
    for f in files_of(prop):
        path = os.path.join(REPO, f)
        out[f] = hashlib.sha256(norm(open(path).read()).encode()).hexdigest()[:16] if os.path.exists(path) else "missing"
    return out


def changed(prop):
    rec = json.load(open(DB)).get(prop, {}) if os.path.exists(DB) else {}
    cur = current(prop)
    return sorted(f for f in cur if rec.get(f) != cur[f])


if __name__ == "__main__":
    if "--update" in sys.argv:
        db = {"C%02d" % i: current("C%02d" % i) for i in range(1, 21)}
        json.dump(db, open(DB, "w"), indent=1, sort_keys=True)
        print("anchors.json updated for", len(db), "properties")
    else:
        for i in range(1, 21):
            c = changed("C%02d" % i)
            if c:
                print("C%02d" % i, c)
