"""Per-property configuration of /verif/check."""

# commits in /repo that add guarded hooks (cfg coupe_verif)
HOOK_COMMITS = []

# properties not claimed, with the reason (none planned; filled while work is in progress)
NOT_CLAIMED = {}

PROPS = {
    "C13": {
        "technique": "Lean 4 proof (soundness, completeness, totality of the CKK search by induction over the model) + differential correspondence with the Rust code, exhaustive on small vectors",
        "level_text": "Theorems ckk_sound, ckk_complete, ckk_total (all weight vectors, all tolerances, unbounded length) proved in Lean 4 over an executable model of ckk.rs; the model is tied to the code by running both on every vector over a small alphabet (exhaustive) and on random vectors and comparing the outcome and the ids exactly; a subset-sum oracle on the implementation's outputs supplies failing inputs.",
        "level_note": "Trusted: Lean kernel; std sort/binary_search contracts; the f64 conversion of the tolerance is evaluated, not proved; i64 overflow excluded by the contract. Weights are integers in the theorems (the property's quantifier).",
        "rule": "exhaustive: every i64 weight vector over a small alphabet up to a small length x 5 tolerances "
                "(quick {0..3}^<=6, thorough {0..5}^<=7); random vectors up to 14/20 elements in 5 shapes "
                "(small, wide, ties, huge, one dominant) x random tolerances; a malformed stream of length "
                "mismatches. Non-trivial: at least two weights and matching lengths; distinct by op line.",
        "trusted_base": [
            "std: sort_unstable_by returns the sorted permutation, binary_search_by returns the partition point on a sorted Vec (keys (weight,id) pairwise distinct)",
            "f64 product sum*tolerance and its truncation to i64 are evaluated with Lean's Float (C double) in the driver, not reasoned about",
        ],
        "assumptions": [
            "weights are exact integers (i64 in the runs, Int in the theorems); no overflow of i64 sums",
        ],
    },
}


def same(prop, impl_line, model_line):
    """Exact comparison of canonical output lines; per-property relaxations go here and are documented."""
    if impl_line.startswith("panic ") and model_line.startswith("panic"):
        # the model names the panic site class after `panic `; the implementation line has file:line: message.
        cls = model_line[len("panic"):].strip()
        return cls == "" or cls in impl_line
    return impl_line == model_line
