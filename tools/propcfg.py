"""Per-property configuration of /verif/check: one JSON file per claimed property in
tools/propcfg.d/Cxx.json with the keys

  technique, level_text, level_note   -> MANIFEST.json
  rule                                 -> evidence: how cases are generated, what is non-trivial
  trusted_base, assumptions, notes     -> evidence
  timeout_quick, timeout_thorough      -> seconds allowed for the harness run (optional)

A property without a file is not claimed (listed under not_applicable in MANIFEST.json).
"""
import glob
import json
import os

_D = os.path.join(os.path.dirname(os.path.abspath(__file__)), "propcfg.d")

# commits in /repo that add guarded hooks (cfg coupe_verif)
HOOK_COMMITS = json.load(open(os.path.join(_D, "_hooks.json")))["commits"]

# properties not claimed, with the reason
NOT_CLAIMED = json.load(open(os.path.join(_D, "_not_claimed.json")))

PROPS = {}
for _f in sorted(glob.glob(os.path.join(_D, "C*.json"))):
    PROPS[os.path.basename(_f)[:-5]] = json.load(open(_f))


def same(prop, impl_line, model_line):
    """Exact comparison of canonical output lines. The only relaxation: a panic is compared by
    site class (the model prints `panic <class>`, the implementation `panic file:line: message`)."""
    if impl_line.startswith("panic") and model_line.startswith("panic"):
        cls = model_line[len("panic"):].strip()
        return cls == "" or cls in impl_line
    return impl_line == model_line
