#!/usr/bin/env python3
"""Prints the current per-property counts from evidence/*.json (for DESIGN.md §11)."""
import glob, json, os
V = os.path.dirname(os.path.dirname(os.path.abspath(__file__)))
print("| id | tier | theorems audited | cases | compared with the model | model declined | disagreements | oracle failures (known) |")
print("|---|---|---|---|---|---|---|---|")
tot = 0
for f in sorted(glob.glob(os.path.join(V, "evidence", "C*.json"))):
    e = json.load(open(f)); c = e["coverage"]
    n = len(c.get("theorems_discharged", [])); tot += n
    print("| %s | %s | %d/%d | %s | %s | %s | %s | %s (%s) |" % (e["property_id"], e["tier"], n, len(c.get("theorems", [])), c.get("evaluations"),
          c.get("traces_validated_against_impl"), c.get("model_declined_to_predict"), c.get("model_impl_disagreements"), c.get("oracle_failures"), c.get("oracle_failures_listed_as_known")))
print("\nTotal: %d audited property theorems." % tot)
