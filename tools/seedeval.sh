#!/bin/bash
# Usage: tools/seedeval.sh <patch.diff> <Cxx> [quick|thorough] [seed]
# Runs ./check Cxx against a scratch copy of /repo with the patch applied, inside a private
# mount namespace (bind mounts over /repo and /verif), so that neither /repo nor /verif is
# touched and other work going on in them is not disturbed. Prints the check's output and the
# exit status. Scratch copies are removed afterwards.
set -u
# one evaluation at a time per lane (build cache /tmp/evalcache$EVAL_LANE; lanes run side by side)
LANE=${EVAL_LANE:-}
CACHE=/tmp/evalcache$LANE
exec 9>$CACHE.lock
flock 9
PATCH=$(readlink -f "$1"); PROP=$2; TIER=${3:-quick}; SEED=${4:-1}
ID=$$
R=/tmp/evalrepo-$ID; V=/tmp/evalverif-$ID
git -C /repo worktree add -q --detach $R HEAD || exit 3
if ! git -C $R apply "$PATCH" 2>/dev/null; then
  # the patch was made against an earlier commit of /repo: merge it
  if ! git -C $R apply --3way "$PATCH" >/dev/null 2>&1 || git -C $R diff --name-only --diff-filter=U | grep -q .; then
    echo "PATCH DOES NOT APPLY"; git -C /repo worktree remove --force $R; exit 3
  fi
  git -C $R reset -q
fi
mkdir -p $V
rsync -a --exclude out --exclude .git --exclude .build /verif/ $V/
mkdir -p $V/out $CACHE/build
# cargo/C build cache of previous evaluations (never /verif/.build: builders may be writing to it)
rsync -a $CACHE/build/ $V/.build/
unshare -m bash -c "mount --bind $R /repo && mount --bind $V /verif && cd /verif && ./check $PROP --tier $TIER --seed $SEED; echo EXIT=\$?" 2>&1 | tee /tmp/seedeval-$ID.log | grep -E "VIOLATION|KNOWN-FINDING|EXIT=|tier=|broken:" | head -20
# keep the replay files of a detected violation for inspection
mkdir -p /tmp/seedeval-out/$PROP-$ID; cp -r $V/out/$PROP/replays /tmp/seedeval-out/$PROP-$ID/ 2>/dev/null
cp $V/evidence/$PROP.json /tmp/seedeval-out/$PROP-$ID/evidence.json 2>/dev/null
echo "artifacts: /tmp/seedeval-out/$PROP-$ID"
rsync -a --delete $V/.build/ $CACHE/build/
rm -rf $V
git -C /repo worktree remove --force $R
