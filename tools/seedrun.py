#!/usr/bin/env python3
"""Usage: tools/seedrun.py <Cxx> <seed out dir (…/Cxx-out)> <scratch worktree> [id tag]
For every sub-directory k of the out dir: confirm the seeded change independently
(tools/seedconfirm.sh), run ./check Cxx against it in isolation (tools/seedeval.sh; quick, then
thorough if quick misses it), and store it as /verif/seeded/Cxx-k/ with the outcome in meta.json."""
import json, os, shutil, subprocess, sys, glob, re

prop, out, wt = sys.argv[1], sys.argv[2], sys.argv[3]
tag = sys.argv[4] if len(sys.argv) > 4 else ""  # e.g. "r2-" for the second round
V = os.path.dirname(os.path.dirname(os.path.abspath(__file__)))
for d in sorted(glob.glob(os.path.join(out, "*"))):
    if not os.path.isfile(os.path.join(d, "patch.diff")):
        continue
    k = os.path.basename(d)
    sid = "%s-%s%s" % (prop, tag, k)
    conf = subprocess.run([os.path.join(V, "tools/seedconfirm.sh"), d, wt], capture_output=True, text=True)
    confirmed = conf.stdout.strip().startswith("CONFIRMED")
    print(sid, conf.stdout.strip().split("\n")[0])
    if not confirmed:
        continue
    result = {}
    # a changed anchor file already escalates the quick run to the thorough case budget (anchor drift),
    # so the thorough tier is only tried when SEED_TIERS asks for it
    for tier in os.environ.get("SEED_TIERS", "quick,thorough").split(","):
        ev = subprocess.run([os.path.join(V, "tools/seedeval.sh"), os.path.join(d, "patch.diff"), prop, tier],
                            capture_output=True, text=True)
        lines = ev.stdout.strip().split("\n")
        if any("PATCH DOES NOT APPLY" in l for l in lines):
            result[tier] = {"detected": False, "not_evaluated": "the patch no longer applies to /repo HEAD (the code it changes was changed by a later fix)"}
            print("   ", tier, "NOT EVALUATED: patch does not apply to the current /repo")
            break
        viol = [l for l in lines if l.startswith("VIOLATION")]
        summ = [l for l in lines if " tier=" in l]
        result[tier] = {"detected": bool(viol), "violation_lines": viol[:3], "summary": summ[:1],
                        "no_failing_input_found": any("no-failing-input-found" in l for l in viol)}
        print("   ", tier, "DETECTED" if viol else "missed", (viol or summ or [""])[0][:160])
        if viol:
            break
    dest = os.path.join(V, "seeded", sid)
    os.makedirs(dest, exist_ok=True)
    for f in os.listdir(d):
        if os.path.isfile(os.path.join(d, f)) and os.path.getsize(os.path.join(d, f)) < 200000:
            shutil.copy(os.path.join(d, f), dest)
    meta = json.load(open(os.path.join(d, "meta.json")))
    meta["id"] = sid
    meta["breaks_property"] = prop
    meta["confirmed_by_coordinator"] = conf.stdout.strip()
    meta["ran"] = "tools/seedconfirm.sh (clean: demo passes; patched: cargo test --workspace passes, demo fails) and tools/seedeval.sh %s (./check %s against a scratch copy of /repo with the patch, isolated mount namespace)" % (os.path.join("seeded", sid, "patch.diff"), prop)
    meta["check_result"] = result
    json.dump(meta, open(os.path.join(dest, "meta.json"), "w"), indent=1)
