#!/usr/bin/env python3
"""Prints the markdown table of seeded changes (/verif/seeded/*/meta.json) for DESIGN.md §11.4."""
import glob, json, os, re
rows = []
for f in sorted(glob.glob(os.path.join(os.path.dirname(os.path.abspath(__file__)), "..", "seeded", "*", "meta.json"))):
    m = json.load(open(f))
    r = m.get("check_result", {})
    det = "missed"
    for tier in ("quick", "thorough"):
        if r.get(tier, {}).get("detected"):
            det = tier + (" (no-failing-input-found)" if r[tier].get("no_failing_input_found") else " (failing input)")
            break
    if det == "missed" and any(v.get("not_evaluated") for v in r.values() if isinstance(v, dict)):
        det = "not evaluated: " + [v["not_evaluated"] for v in r.values() if isinstance(v, dict) and v.get("not_evaluated")][0]
    what = re.sub(r"\s+", " ", m.get("what", ""))[:150]
    needs = re.sub(r"\s+", " ", str(m.get("needs", "")))[:130]
    note = m.get("history", "")
    rows.append("| %s | %s | %s | %s%s |" % (m.get("id"), what.replace("|", "/"), needs.replace("|", "/"), det, (" — " + note) if note else ""))
print("| id | change | needs | caught by `./check` |")
print("|---|---|---|---|")
print("\n".join(rows))
